"""Exercises Optimizer._evaluate (directly and through optimizers that inherit it) and prints a digest."""

import hashlib
import logging

import numpy as np

logging.disable(logging.CRITICAL)

from opytimizer.core.function import Function
from opytimizer.core.optimizer import Optimizer
from opytimizer.optimizers.hc import HC
from opytimizer.optimizers.sa import SA
from opytimizer.spaces.search import SearchSpace

OUT = []


def enc(v):
    """Encodes a value into a bit-exact string."""
    if isinstance(v, np.ndarray):
        return 'nd%s%s[%s]' % (v.dtype, v.shape, ','.join(enc(x) for x in v.ravel().tolist()))
    if isinstance(v, (float, np.floating)):
        return type(v).__name__ + ':' + float(v).hex()
    if isinstance(v, (list, tuple)):
        return type(v).__name__ + '(' + ','.join(enc(x) for x in v) + ')'
    return type(v).__name__ + ':' + repr(v)


def emit(*vals):
    OUT.append('|'.join(enc(v) for v in vals))


def snapshot(tag, space, calls=None):
    emit(tag, 'best', space.best_agent.position, space.best_agent.fit)
    for a in space.agents:
        emit(tag, 'agent', a.position, a.fit)
        # aliasing visible from outside
        emit(tag, 'alias', a.position is space.best_agent.position,
             bool(np.shares_memory(a.position, space.best_agent.position)),
             a.fit is space.best_agent.fit)
    if calls is not None:
        emit(tag, 'calls', len(calls), [c for c in calls])
    emit(tag, 'rng', np.random.uniform())


def make_space(seed, n_agents, n_vars, lb, ub, iters=5):
    np.random.seed(seed)
    return SearchSpace(n_agents=n_agents, n_iterations=iters, n_variables=n_vars,
                       lower_bound=[lb] * n_vars, upper_bound=[ub] * n_vars)


def recording(fn):
    calls = []

    def wrapped(x):
        calls.append(np.array(x, copy=True))
        return fn(x)
    return wrapped, calls


def sphere(x):
    return np.sum(x ** 2)


def py_float(x):
    return float(np.sum(np.abs(x)))


def array_fit(x):
    # fitness of shape (1,), aliasing the position's memory
    return x[0]


def constant(x):
    return 1.0


def nan_some(x):
    s = np.sum(x)
    return float('nan') if s > 0 else float(s)


def all_nan(x):
    return float('nan')


def neg_inf(x):
    return -np.inf if x[0][0] < 0 else np.sum(x)


def vector_fit(x):
    # size-2 fitness: truth value is ambiguous
    return np.array([1.0, 2.0])


class Boom(Exception):
    pass


def direct(tag, fn, seed, n_agents=6, n_vars=3, lb=-5, ub=5, repeat=2, mutate=True):
    space = make_space(seed, n_agents, n_vars, lb, ub)
    wrapped, calls = recording(fn)
    function = Function(pointer=wrapped)
    opt = Optimizer()
    best_obj = space.best_agent
    agents_obj = list(space.agents)
    for r in range(repeat):
        try:
            ret = opt._evaluate(space, function)
            emit(tag, r, 'ret', ret)
        except Exception as exc:  # pylint: disable=broad-except
            emit(tag, r, 'exc', type(exc).__name__)
        emit(tag, r, 'ident', space.best_agent is best_obj,
             all(a is b for a, b in zip(space.agents, agents_obj)), len(space.agents))
        snapshot('%s/%d' % (tag, r), space, calls)
        if mutate:
            # moves agents in place; the best agent must not follow
            for a in space.agents:
                a.position *= 0.5
            snapshot('%s/%d/moved' % (tag, r), space)


for seed in (0, 1, 7, 12345):
    direct('sphere%d' % seed, sphere, seed)
    direct('pyfloat%d' % seed, py_float, seed, n_agents=4, n_vars=2)
    direct('arrayfit%d' % seed, array_fit, seed, n_agents=5, n_vars=1)
    direct('nansome%d' % seed, nan_some, seed)
    direct('neginf%d' % seed, neg_inf, seed)
direct('constant', constant, 3)
direct('allnan', all_nan, 3)
direct('vector', vector_fit, 3, mutate=False)
direct('single', sphere, 5, n_agents=1, n_vars=1)

# objective raising in the middle of the sweep: earlier agents keep their updates
for k in (0, 2, 5):
    count = [0]

    def failing(x, k=k, count=count):
        count[0] += 1
        if count[0] == k + 1:
            raise Boom('stop')
        return np.sum(x ** 2)
    direct('boom%d' % k, failing, 11, repeat=1)

# empty list of agents
space = make_space(2, 3, 2, 0, 1)
space.agents = []
emit('empty', Optimizer()._evaluate(space, Function(pointer=sphere)))
emit('empty', space.best_agent.position, space.best_agent.fit)

# best agent already better than everybody, ties and an infinite incumbent
space = make_space(4, 4, 2, 1, 2)
space.best_agent.fit = -1.0
keep = space.best_agent.position
Optimizer()._evaluate(space, Function(pointer=sphere))
emit('incumbent', space.best_agent.position is keep)
snapshot('incumbent', space)
space.best_agent.fit = float('nan')
Optimizer()._evaluate(space, Function(pointer=sphere))
emit('nanincumbent', space.best_agent.position is keep)
snapshot('nanincumbent', space)
space.best_agent.fit = space.agents[2].fit
Optimizer()._evaluate(space, Function(pointer=sphere))
emit('tie', space.best_agent.position is keep)
snapshot('tie', space)

# agents that are not Agent objects / objective without .pointer
space = make_space(4, 2, 2, 0, 1)
try:
    Optimizer()._evaluate(space, sphere)
except Exception as exc:  # pylint: disable=broad-except
    emit('nopointer', type(exc).__name__)
try:
    Optimizer()._evaluate(None, Function(pointer=sphere))
except Exception as exc:  # pylint: disable=broad-except
    emit('nospace', type(exc).__name__)

# full seeded runs of optimizers that inherit Optimizer._evaluate
for cls in (HC, SA):
    for seed in (0, 9):
        for fn in (sphere, nan_some):
            space = make_space(seed, 5, 2, -3, 3, iters=8)
            wrapped, calls = recording(fn)
            history = cls().run(space, Function(pointer=wrapped))
            tag = 'run/%s/%d/%s' % (cls.__name__, seed, fn.__name__)
            snapshot(tag, space, calls)
            for t in range(len(history.best_agent)):
                emit(tag, 'hist', history.best_agent[t][0], history.best_agent[t][1])
                emit(tag, 'hista', [list(p) + [f] for p, f in history.agents[t]])

digest = hashlib.sha256('\n'.join(OUT).encode()).hexdigest()
print(len(OUT), 'records')
print(digest)
