"""Exercises Opytimizer (setters and start) and prints a digest.

The wall clock seen by opytimizer/opytimizer.py is replaced by a deterministic fake,
so that the elapsed time dumped in the History is reproducible bit for bit.
"""
import hashlib

import numpy as np

import opytimizer
import opytimizer.opytimizer as om
from opytimizer.core.function import Function
from opytimizer.optimizers import pso, hs, fa
from opytimizer.spaces.search import SearchSpace
from opytimizer.utils.history import History

out = []


class FakeTime:
    """Stands for the `time` module inside opytimizer.opytimizer."""

    def __init__(self, seed):
        self.rng = np.random.RandomState(seed)
        self.now = 1.6e9 + self.rng.uniform()
        self.calls = 0

    def time(self):
        self.calls += 1
        self.now = self.now + self.rng.exponential(0.37)
        out.append(f'  clock call {self.calls} -> {float(self.now).hex()}')
        return self.now


def flat(v):
    if isinstance(v, (list, tuple)):
        return '[' + ','.join(flat(t) for t in v) + ']'
    if isinstance(v, np.ndarray):
        return flat(v.tolist())
    if isinstance(v, (float, np.floating)):
        return float(v).hex()
    return repr(v)


def rec(tag, thunk):
    try:
        v = thunk()
    except BaseException as exc:  # noqa
        out.append(f'{tag}: EXC {type(exc).__module__}.{type(exc).__name__}: {exc}')
        return None
    return v


def sphere(x):
    return np.sum(x ** 2)


def shifted(x):
    return np.sum((x - 0.3) ** 2) + 1e-3


def dump_history(tag, h):
    for k in sorted(vars(h)):
        out.append(f'{tag}.{k} = {flat(getattr(h, k))}')


# 1. Real seeded runs
for seed, (mk_opt, fn, n_agents, n_vars, n_iter, sbo) in enumerate([
        (pso.PSO, sphere, 5, 3, 6, False),
        (pso.PSO, shifted, 1, 1, 1, True),
        (hs.HS, sphere, 4, 2, 5, False),
        (fa.FA, shifted, 3, 2, 2, False),
        (pso.PSO, sphere, 2, 2, 3, True),
]):
    np.random.seed(100 + seed)
    om.time = clock = FakeTime(seed)
    space = SearchSpace(n_agents=n_agents, n_variables=n_vars, n_iterations=n_iter,
                        lower_bound=[-5.0] * n_vars, upper_bound=[5.0] * n_vars)
    task = opytimizer.Opytimizer(space=space, optimizer=mk_opt(), function=Function(pointer=fn))
    hooks = []
    hook = (lambda o, s, f: hooks.append((type(o).__name__, s is space, f is task.function))) if seed % 2 else None
    h = rec(f'run{seed}', lambda: task.start(store_best_only=sbo, pre_evaluation_hook=hook))
    out.append(f'run{seed}: clock calls={clock.calls} hooks={hooks}')
    if h is not None:
        out.append(f'run{seed}: type={type(h).__name__} time_type={type(h.time[0]).__name__} n_time={len(h.time)}')
        dump_history(f'run{seed}', h)
    out.append(f'run{seed}: best={flat(space.best_agent.position)} {flat(space.best_agent.fit)}')
    out.append(f'run{seed}: next random={np.random.uniform().hex()}')


# 2. Stub optimizers: argument passing, aliasing, failures
class StubHistory:
    def __init__(self, fail=False):
        self.fail = fail
        self.dumps = []

    def dump(self, **kwargs):
        out.append(f'  dump called with {sorted(kwargs)}')
        if self.fail:
            raise RuntimeError('dump failed')
        self.dumps.append(kwargs)


class StubOptimizer:
    built = True

    def __init__(self, history, fail=False):
        self.history = history
        self.fail = fail
        self.seen = None

    def run(self, *args, **kwargs):
        out.append(f'  run called with {len(args)} args, kwargs={sorted(kwargs)}')
        self.seen = args
        if self.fail:
            raise KeyError('run failed')
        return self.history


space = SearchSpace(n_agents=2, n_variables=1, n_iterations=1, lower_bound=[0], upper_bound=[1])
fn = Function(pointer=sphere)
for i, (hist, fail_run) in enumerate([(StubHistory(), False), (StubHistory(fail=True), False),
                                      (StubHistory(), True), (History(), False), (None, False)]):
    om.time = clock = FakeTime(50 + i)
    opt = StubOptimizer(hist, fail_run)
    task = opytimizer.Opytimizer(space=space, optimizer=opt, function=fn)
    out.append(f'stub{i}: ids {task.space is space} {task.optimizer is opt} {task.function is fn}')
    hook = object()
    r = rec(f'stub{i}', lambda: task.start('SBO', hook) if i % 2 else task.start())
    out.append(f'stub{i}: returned same={r is hist} clock calls={clock.calls}')
    if opt.seen is not None:
        a = opt.seen
        out.append(f'stub{i}: args {a[0] is space} {a[1] is fn} {a[2]!r} {a[3] is hook} {a[3] is None}')
    if isinstance(hist, StubHistory):
        out.append(f'stub{i}: dumps={[(sorted(d), [float(v).hex() for v in d.values()]) for d in hist.dumps]}')
    elif isinstance(hist, History):
        dump_history(f'stub{i}', hist)
    # A second start on the same task appends a second time record
    if i == 3:
        task.start()
        dump_history(f'stub{i}b', hist)


# 3. Setters: unbuilt or malformed components
class Thing:
    def __init__(self, built):
        self.built = built


good = Thing(True)
for name, val in [('unbuilt', Thing(False)), ('zero', Thing(0)), ('truthy', Thing('yes')), ('none', None),
                  ('nan', Thing(float('nan'))), ('empty', Thing([]))]:
    for slot in ('space', 'optimizer', 'function'):
        kw = dict(space=good, optimizer=good, function=good)
        kw[slot] = val
        t = rec(f'ctor[{name}][{slot}]', lambda: opytimizer.Opytimizer(**kw))
        if t is not None:
            out.append(f'ctor[{name}][{slot}]: ok {getattr(t, slot) is val}')
        t = opytimizer.Opytimizer(space=good, optimizer=good, function=good)
        rec(f'set[{name}][{slot}]', lambda: setattr(t, slot, val))
        out.append(f'set[{name}][{slot}]: kept={getattr(t, slot) is good} new={getattr(t, slot) is val}')
rec('ctor[defaults]', lambda: opytimizer.Opytimizer())

text = '\n'.join(out)
print(hashlib.sha256(text.encode()).hexdigest())
