"""Behaviour digest for GP._mutation / GP._crossover (population-level loops).

Run as:  cd /tmp/harmless4/gpA && PYTHONPATH=/tmp/harmless4/gpA /venv/bin/python harmlessX/same.py
The LAST line printed is a sha256 digest which must be identical with and without the change.
"""

import hashlib
import logging
import warnings

import numpy as np

logging.disable(logging.CRITICAL)
warnings.filterwarnings('ignore')

import opytimizer.math.general as g
from opytimizer.core.function import Function
from opytimizer.core.node import Node
from opytimizer.optimizers.gp import GP
from opytimizer.spaces.tree import TreeSpace

# Which population-level operator this script concentrates on
TARGET = 'crossover'

OUT = []


def emit(*items):
    OUT.append('|'.join(str(i) for i in items))


def fhex(x):
    """Bit-exact rendering of floats / arrays / None."""

    if x is None:
        return 'None'
    a = np.asarray(x, dtype=float)
    return str(a.shape) + ':' + ','.join(float(v).hex() for v in a.ravel())


def tree_fp(node, space=None, parent=None, seen=None):
    """Structural fingerprint of a tree, including flags, parent links and terminal aliasing."""

    if node is None:
        return '-'
    if not isinstance(node, Node):
        return 'X' + type(node).__name__
    if seen is None:
        seen = set()
    if id(node) in seen:
        return 'CYCLE'
    seen.add(id(node))
    alias = '?'
    if space is not None and node.value is not None:
        # Which terminal's position array (if any) the node's value IS (aliasing is observable)
        alias = [i for i, t in enumerate(space.terminals) if t.position is node.value]
    return '(%s:%s:%s:p%s:v%s:a%s %s %s)' % (
        node.type, node.name, node.flag, node.parent is parent, fhex(node.value), alias,
        tree_fp(node.left, space, node, seen), tree_fp(node.right, space, node, seen))


def rng_fp():
    s = np.random.get_state()
    return hashlib.sha256(s[1].tobytes() + str(s[2:]).encode()).hexdigest()[:16]


def space_fp(space):
    out = []
    for t in space.trees:
        out.append(tree_fp(t, space))
        if isinstance(t, Node):
            out.append('n%d' % t.n_nodes)
            out.append(fhex(t.position))
    for a in space.agents:
        out.append(fhex(a.position) + '/' + fhex(a.fit))
    for t in space.terminals:
        out.append(fhex(t.position))
    out.append(tree_fp(space.best_tree, space))
    out.append(fhex(space.best_agent.position) + '/' + fhex(space.best_agent.fit))
    return hashlib.sha256('\n'.join(out).encode()).hexdigest()


def identity_fp(space, before_list, before_trees, before_agents):
    """Which objects survived the operator (identity / aliasing visible from outside)."""

    return '%s;%s;%s;%s' % (
        space.trees is before_list,
        ''.join('1' if a is b else '0' for a, b in zip(space.trees, before_trees)),
        ''.join('1' if a is b else '0' for a, b in zip(space.agents, before_agents)),
        len({id(t) for t in space.trees}) == len(space.trees))


def sphere(x):
    return np.sum(x ** 2)


def shifted(x):
    return np.sum((x - 0.3) ** 2) + np.prod(np.cos(x))


def make(seed, n_trees, n_terminals=2, n_variables=2, min_depth=1, max_depth=4,
         functions=('SUM', 'SUB', 'MUL', 'DIV'), hp=None, fn=sphere):
    np.random.seed(seed)
    space = TreeSpace(n_trees=n_trees, n_terminals=n_terminals, n_variables=n_variables,
                      n_iterations=3, min_depth=min_depth, max_depth=max_depth,
                      functions=list(functions), lower_bound=[-5] * n_variables,
                      upper_bound=[5] * n_variables)
    opt = GP(hyperparams=dict(hp or {}))
    opt._evaluate(space, Function(pointer=fn))
    return space, opt


def enlarge(space, fn=sphere):
    """Re-grows every one-node tree until it has more than one node, then re-evaluates."""

    for i in range(len(space.trees)):
        while space.trees[i].n_nodes <= 1:
            space.trees[i] = space.grow(space.min_depth, space.max_depth)
    GP()._evaluate(space, Function(pointer=fn))
    return space


def apply(label, space, opt, op, times=1):
    """Applies `op` (`_mutation` or `_crossover`) and records everything observable."""

    for k in range(times):
        before_list = space.trees
        before_trees = list(space.trees)
        before_agents = list(space.agents)
        try:
            ret = getattr(opt, op)(space)
            emit(label, op, k, 'ret', repr(ret))
        except BaseException as ex:  # noqa
            emit(label, op, k, 'EXC', type(ex).__module__, type(ex).__name__, str(ex)[:80])
        emit(label, op, k, space_fp(space), identity_fp(space, before_list, before_trees, before_agents), rng_fp())


class Tracer:
    """Records the order of calls to the inner operators and to the selection helpers."""

    def __init__(self, opt, space):
        self.log = []
        self.opt, self.space = opt, space
        self._orig = {}
        for name in ('_mutate', '_cross', '_prune_nodes'):
            self._wrap(opt, name)
        self._wrap(space, 'grow')
        self._ts, self._pw = g.tournament_selection, g.pairwise
        g.tournament_selection = self._wrapf('tournament_selection', self._ts)
        g.pairwise = self._wrapf('pairwise', self._pw, listify=True)

    def _arg(self, a):
        if isinstance(a, Node):
            idx = [i for i, t in enumerate(self.space.trees) if t is a]
            return 'Node@%s' % idx
        if isinstance(a, TreeSpace):
            return 'space'
        if isinstance(a, list):
            return str([int(v) for v in a])
        return repr(a)

    def _wrap(self, obj, name):
        orig = getattr(obj, name)

        def wrapper(*args, **kw):
            self.log.append('%s(%s)%s' % (name, ','.join(self._arg(a) for a in args), sorted(kw)))
            return orig(*args, **kw)
        setattr(obj, name, wrapper)
        self._orig[(id(obj), name)] = (obj, name)

    def _wrapf(self, name, orig, listify=False):
        def wrapper(*args, **kw):
            self.log.append('%s(%s)' % (name, ','.join(self._arg(a) for a in args)))
            res = orig(*args, **kw)
            if listify:
                res = list(res)
                self.log.append('  -> %s' % [tuple(int(v) for v in p) for p in res])
                return iter(res)
            self.log.append('  -> %s' % [int(v) for v in res])
            return res
        return wrapper

    def close(self):
        for obj, name in self._orig.values():
            delattr(obj, name)
        g.tournament_selection, g.pairwise = self._ts, self._pw


def traced(label, space, opt, op):
    tr = Tracer(opt, space)
    try:
        apply(label, space, opt, op)
    finally:
        tr.close()
    emit(label, op, 'trace', hashlib.sha256('\n'.join(tr.log).encode()).hexdigest(), len(tr.log))


# ---------------------------------------------------------------------------
# 1. Regular seeded populations: both operators, several hyperparameter settings
# ---------------------------------------------------------------------------
CONFIGS = [
    dict(n_trees=10, hp={'p_mutation': 0.5, 'p_crossover': 0.5}),
    dict(n_trees=15, hp={'p_mutation': 1.0, 'p_crossover': 1.0, 'prunning_ratio': 0.5}),
    dict(n_trees=7, hp={'p_mutation': 0.45, 'p_crossover': 0.45}, max_depth=6),        # odd number of parents
    dict(n_trees=20, hp={'p_mutation': 0.1, 'p_crossover': 0.1}, functions=('SUM', 'EXP', 'SQRT', 'ABS')),
    dict(n_trees=12, hp={'p_mutation': 1, 'p_crossover': 1, 'prunning_ratio': 1}),    # always prunned down to 2
    dict(n_trees=9, hp={'p_mutation': 0.7, 'p_crossover': 0.7}, n_terminals=1, n_variables=1, fn=shifted),
    dict(n_trees=30, hp={'p_mutation': 0.9, 'p_crossover': 0.9}, min_depth=1, max_depth=2),  # many 1-node trees
]

for ci, cfg in enumerate(CONFIGS):
    for seed in (0, 1, 7, 123):
        for op in ('_mutation', '_crossover'):
            space, opt = make(seed, **cfg)
            apply('cfg%d/s%d' % (ci, seed), space, opt, op, times=3)
        # Interleaved, as `_update` does (crossover then mutation), re-evaluating in between
        space, opt = make(seed, **cfg)
        fn = Function(pointer=cfg.get('fn', sphere))
        for k in range(3):
            apply('cfg%d/s%d/upd%d' % (ci, seed, k), space, opt, '_crossover')
            apply('cfg%d/s%d/upd%d' % (ci, seed, k), space, opt, '_mutation')
            opt._evaluate(space, fn)

# ---------------------------------------------------------------------------
# 2. Call-order traces (which individuals go to which inner operator, in which order)
# ---------------------------------------------------------------------------
for seed in (2, 3, 11):
    for op in ('_mutation', '_crossover'):
        space, opt = make(seed, n_trees=14, hp={'p_mutation': 0.8, 'p_crossover': 0.8, 'prunning_ratio': 0.3},
                          min_depth=1, max_depth=3)
        traced('trace/s%d' % seed, space, opt, op)

# ---------------------------------------------------------------------------
# 3. Edge cases
# ---------------------------------------------------------------------------
op = '_' + TARGET
other = '_crossover' if TARGET == 'mutation' else '_mutation'
pkey = 'p_' + TARGET

# 3a. nobody selected (probability 0, or int() truncates to 0)
for hp in ({pkey: 0}, {pkey: 0.0}, {pkey: 0.09}):
    space, opt = make(5, n_trees=10, hp=hp)
    traced('none/%s' % hp, space, opt, op)

# 3b. a single tree
for seed in (0, 4):
    for p in (0.4, 1, 1.0):
        space, opt = make(seed, n_trees=1, hp={pkey: p})
        traced('single/s%d/p%r' % (seed, p), space, opt, op)

# 3c. only one-node trees (min_depth == max_depth makes `grow` return terminals only)
for seed in (0, 6):
    space, opt = make(seed, n_trees=8, min_depth=2, max_depth=2, hp={pkey: 1.0})
    traced('terminals/s%d' % seed, space, opt, op)

# 3d. the same individual selected over and over (all but one fitness are huge)
for seed in (0, 9):
    space, opt = make(seed, n_trees=6, hp={pkey: 1.0}, max_depth=5)
    for i, a in enumerate(space.agents):
        a.fit = 1e300 if i != 3 else -1.0
    traced('samewinner/s%d' % seed, space, opt, op)

# 3e. equal fitness everywhere (np.where picks the first index: every pair is (0, 0))
space, opt = make(8, n_trees=6, hp={pkey: 1.0}, max_depth=5)
for a in space.agents:
    a.fit = 2.5
traced('ties', space, opt, op)

# 3e'. only trees with more than one node (the inner operator is always reached)
for seed in (0, 5):
    space, opt = make(seed, n_trees=8, hp={pkey: 1.0, 'prunning_ratio': 0.25}, max_depth=5)
    enlarge(space)
    traced('large/s%d' % seed, space, opt, op)

# 3f. mixture of one-node and larger trees built by hand
for seed in (0, 1, 2):
    space, opt = make(seed, n_trees=8, hp={pkey: 1.0}, max_depth=5)
    np.random.seed(100 + seed)
    for i in (0, 2, 4, 6):
        space.trees[i] = space.grow(3, 3)            # one-node trees
    for i in (1, 5):
        space.trees[i] = space.grow(1, 7)
    opt._evaluate(space, Function(pointer=sphere))
    np.random.seed(200 + seed)
    traced('mixed/s%d' % seed, space, opt, op)

# 3g. exceptions: NaN fitness (selection fails), broken population entries, unbuilt attributes
space, opt = make(3, n_trees=5, hp={pkey: 1.0})
for a in space.agents:
    a.fit = float('nan')
apply('nanfit', space, opt, op)

space, opt = make(3, n_trees=5, hp={pkey: 1.0})
space.agents[2].fit = float('nan')
apply('onenan', space, opt, op)

space, opt = make(3, n_trees=4, hp={pkey: 1.0})
space.trees[0] = None
space.trees[2] = 'not a tree'
apply('brokentrees', space, opt, op)

space, opt = make(3, n_trees=4, hp={pkey: 1.0})
space._trees = space.trees[:2]                       # shorter than the agents' list
apply('shorttrees', space, opt, op, times=2)

space, opt = make(3, n_trees=4, hp={pkey: 1.0})
space._trees = tuple(space.trees)                    # immutable population
apply('tupletrees', space, opt, op)

space, opt = make(3, n_trees=4, hp={pkey: 1.0})
enlarge(space)
space._trees = tuple(space.trees)                    # immutable population, inner operator is reached
apply('tupletrees/large', space, opt, op)

space, opt = make(3, n_trees=4, hp={pkey: 1.0})
del opt.__dict__['_' + pkey]
apply('noprob', space, opt, op)

space, opt = make(3, n_trees=4, hp={pkey: 1.0})
space.agents = []
apply('noagents', space, opt, op)

space, opt = make(3, n_trees=4, hp={pkey: 1.0})
space._n_trees = 40                                  # more selections than trees
apply('manyselections', space, opt, op, times=2)

# 3h. inner operators that misbehave (the loop must fail at the same point, same RNG position)
space, opt = make(3, n_trees=6, hp={pkey: 1.0}, max_depth=5)
enlarge(space)
calls = []


def boom(*args, **kw):
    calls.append(len(args))
    if len(calls) == 2:
        raise RuntimeError('inner operator failed')
    return orig_inner(*args, **kw)


inner = '_mutate' if TARGET == 'mutation' else '_cross'
orig_inner = getattr(opt, inner)
setattr(opt, inner, boom)
apply('innerfails', space, opt, op)
emit('innerfails', calls)

space, opt = make(3, n_trees=6, hp={pkey: 1.0}, max_depth=5)
enlarge(space)
setattr(opt, inner, lambda *a, **k: (1, 2, 3))         # wrong arity for crossover, odd object for mutation
apply('innerweird', space, opt, op)

# ---------------------------------------------------------------------------
# 4. Whole seeded runs
# ---------------------------------------------------------------------------
for seed in (0, 42):
    for hp in ({'p_reproduction': 0.3, 'p_mutation': 0.4, 'p_crossover': 0.4},
               {'p_reproduction': 0.0, 'p_mutation': 1.0, 'p_crossover': 1.0, 'prunning_ratio': 0.6}):
        np.random.seed(seed)
        space = TreeSpace(n_trees=12, n_terminals=3, n_variables=2, n_iterations=8, min_depth=1, max_depth=4,
                          functions=['SUM', 'SUB', 'MUL', 'DIV', 'COS'], lower_bound=[-3, -3], upper_bound=[3, 3])
        opt = GP(hyperparams=hp)
        hist = opt.run(space, Function(pointer=shifted))
        rec = []
        for it_agents, it_best in zip(hist.agents, hist.best_agent):
            rec.append(';'.join(fhex(p) + '/' + fhex(f) for p, f in it_agents))
            rec.append(fhex(it_best[0]) + '/' + fhex(it_best[1]))
        emit('run/s%d/%s' % (seed, sorted(hp.items())), hashlib.sha256('\n'.join(rec).encode()).hexdigest(),
             space_fp(space), rng_fp())

for line in OUT:
    print(line)
print(len(OUT), 'records')
print(hashlib.sha256('\n'.join(OUT).encode()).hexdigest())
