"""Digest of CS._generate_new_nests / _generate_abandoned_nests / _evaluate_nests / _update / run on seeded inputs."""
import hashlib
import logging
import warnings

import numpy as np

logging.disable(logging.CRITICAL)
warnings.simplefilter('ignore')

from opytimizer.core.agent import Agent
from opytimizer.core.function import Function
from opytimizer.optimizers.cs import CS
from opytimizer.spaces.search import SearchSpace

H = hashlib.sha256()


def put(*items):
    for it in items:
        if isinstance(it, np.ndarray):
            H.update(('A%s%s[' % (it.shape, it.dtype)).encode())
            for v in it.ravel().tolist():
                put(v)
            H.update(b']')
        elif isinstance(it, (float, np.floating)):
            H.update(('F' + type(it).__name__ + float(it).hex() + ';').encode())
        elif isinstance(it, (bool, np.bool_)):
            H.update(('B%d;' % bool(it)).encode())
        elif isinstance(it, (int, np.integer)):
            H.update(('I' + type(it).__name__ + '%d;' % int(it)).encode())
        elif isinstance(it, str):
            H.update(('S' + it + ';').encode())
        elif it is None:
            H.update(b'N;')
        else:
            raise TypeError(type(it))


def put_rng():
    st = np.random.get_state()
    put(np.asarray(st[1]), int(st[2]), int(st[3]), float(st[4]))


def put_agent(a):
    put(a.position, a.fit, a.lb, a.ub)


def sphere(x):
    return float(np.sum(x ** 2))


def np_sphere(x):
    return np.sum(x ** 2)


def shifted(x):
    return float(np.sum((x - 0.3) ** 2) + np.sum(np.abs(x)))


def nan_fn(x):
    return float('nan')


def const_fn(x):
    return 1.0


def make_agents(n, n_var, lo, hi, fn):
    agents = []
    for _ in range(n):
        a = Agent(n_variables=n_var, n_dimensions=1)
        a.lb = np.full(n_var, float(lo))
        a.ub = np.full(n_var, float(hi))
        a.position = np.random.uniform(lo, hi, (n_var, 1))
        a.fit = fn(a.position)
        agents.append(a)
    return agents


def neg_fn(x):
    return float(-np.sum(np.abs(x)))


FUNCS = [('sphere', sphere), ('np_sphere', np_sphere), ('shifted', shifted),
         ('nan', nan_fn), ('const', const_fn), ('neg', neg_fn)]

HYPER = [{}, {'alpha': 0, 'beta': 1.5, 'p': 0}, {'alpha': 0.01, 'beta': 0.5, 'p': 1},
         {'alpha': 3, 'beta': 1.99, 'p': 0.5}, {'alpha': 1, 'beta': 1, 'p': 0.25}]


def put_list(agents):
    for a in agents:
        put_agent(a)


def make(seed, n_agents, n_var, n_dim, fn, lo=-2, hi=2):
    np.random.seed(seed)
    agents = []
    for _ in range(n_agents + 1):
        a = Agent(n_variables=n_var, n_dimensions=n_dim)
        a.lb = np.full(n_var, float(lo))
        a.ub = np.full(n_var, float(hi))
        a.position = np.random.uniform(lo, hi, (n_var, n_dim))
        a.fit = fn(a.position)
        agents.append(a)
    return agents[:-1], agents[-1]


SHAPES = ((1, 1, 1), (2, 3, 1), (5, 2, 1), (4, 3, 2))

# 1. _generate_new_nests: fresh copies, originals untouched, stream consumption
for seed in range(6):
    for hp in HYPER:
        for n_agents, n_var, n_dim in SHAPES:
            agents, best = make(seed, n_agents, n_var, n_dim, sphere)
            opt = CS(hyperparams=hp)
            new = opt._generate_new_nests(agents, best)
            put(len(new))
            put_list(new)
            put_list(agents)
            put_agent(best)
            put(*[a is b for a in new for b in agents])
            put(*[a.position is b.position for a in new for b in agents + [best]])
            put_rng()
            # best agent being one of the agents
            new = opt._generate_new_nests(agents, agents[0])
            put_list(new)
            put_list(agents)
            put_rng()

# 2. _generate_abandoned_nests
for seed in range(6):
    for prob in (0, 0.25, 0.5, 1):
        for n_agents, n_var, n_dim in SHAPES:
            agents, best = make(30 + seed, n_agents, n_var, n_dim, shifted)
            new = CS()._generate_abandoned_nests(agents, prob)
            put_list(new)
            put_list(agents)
            put(*[a is b for a in new for b in agents])
            put_rng()

# 3. _evaluate_nests
for seed in range(4):
    for name, fn in FUNCS:
        agents, best = make(50 + seed, 4, 3, 1, fn)
        new, _ = make(70 + seed, 4, 3, 1, fn, lo=-4, hi=4)
        put(CS()._evaluate_nests(agents, new, Function(pointer=fn)))
        put_list(agents)
        put_list(new)
        put(*[a.position is b.position for a, b in zip(agents, new)])
        put_rng()

# 4. _update, several rounds
for seed in range(5):
    for name, fn in FUNCS:
        for hp in HYPER:
            for n_agents, n_var, n_dim in SHAPES:
                agents, best = make(80 + seed, n_agents, n_var, n_dim, fn)
                opt = CS(hyperparams=hp)
                f = Function(pointer=fn)
                orig = list(agents)
                for _ in range(3):
                    put(opt._update(agents, best, f))
                    put_list(agents)
                    put_agent(best)
                    put(*[a is b for a, b in zip(agents, orig)])
                    put_rng()

# 5. run() through a SearchSpace
for seed in range(4):
    for name, fn in FUNCS:
        for hp in HYPER:
            np.random.seed(200 + seed)
            space = SearchSpace(n_agents=6, n_variables=3, n_iterations=8,
                                lower_bound=[-3, -2, -1], upper_bound=[3, 2, 1])
            hist = CS(hyperparams=hp).run(space, Function(pointer=fn))
            put_list(space.agents)
            put_agent(space.best_agent)
            for it in hist.best_agent:
                put(np.asarray(it[0]), it[1])
            put_rng()


# 6. exceptions / degenerate inputs
def bad(x):
    raise KeyError('boom')


def attempt(what, *args):
    try:
        out = what(*args)
        put('ok')
        if isinstance(out, list):
            put_list(out)
    except Exception as ex:  # noqa
        put('EXC', type(ex).__name__)
    put_rng()


agents, best = make(5, 0, 2, 1, sphere)
attempt(CS()._generate_new_nests, agents, best)
attempt(CS()._update, agents, best, Function(pointer=sphere))

agents, best = make(6, 3, 2, 1, sphere)
best.position = np.zeros((3, 1))                  # shape mismatch
attempt(CS()._generate_new_nests, agents, best)
put_list(agents)

agents, best = make(7, 3, 2, 1, sphere)
best.position = None
attempt(CS()._generate_new_nests, agents, best)
put_list(agents)

agents, best = make(8, 3, 2, 1, sphere)
attempt(CS()._generate_new_nests, agents, None)
put_list(agents)

agents, best = make(9, 3, 2, 1, sphere)
agents[1].position = agents[1].position.astype(int)   # in-place add of floats into ints
attempt(CS()._generate_new_nests, agents, best)
put_list(agents)

agents, best = make(10, 3, 2, 1, sphere)
attempt(CS()._update, agents, best, Function(pointer=bad))
put_list(agents)

agents, best = make(11, 3, 2, 1, sphere)               # beta = 0: division by zero in the Levy step
attempt(CS(hyperparams={'beta': 0})._generate_new_nests, agents, best)
attempt(CS(hyperparams={'beta': 0})._update, agents, best, Function(pointer=sphere))
put_list(agents)

print(H.hexdigest())
