"""Digest of BA._update (and its helpers) / run on seeded inputs."""
import hashlib
import logging
import warnings

import numpy as np

logging.disable(logging.CRITICAL)
warnings.simplefilter('ignore')

from opytimizer.core.agent import Agent
from opytimizer.core.function import Function
from opytimizer.optimizers.ba import BA
from opytimizer.spaces.search import SearchSpace

H = hashlib.sha256()


def put(*items):
    for it in items:
        if isinstance(it, np.ndarray):
            H.update(('A%s%s[' % (it.shape, it.dtype)).encode())
            for v in it.ravel().tolist():
                put(v)
            H.update(b']')
        elif isinstance(it, (float, np.floating)):
            H.update(('F' + type(it).__name__ + float(it).hex() + ';').encode())
        elif isinstance(it, (bool, np.bool_)):
            H.update(('B%d;' % bool(it)).encode())
        elif isinstance(it, (int, np.integer)):
            H.update(('I' + type(it).__name__ + '%d;' % int(it)).encode())
        elif isinstance(it, str):
            H.update(('S' + it + ';').encode())
        elif it is None:
            H.update(b'N;')
        else:
            raise TypeError(type(it))


def put_rng():
    st = np.random.get_state()
    put(np.asarray(st[1]), int(st[2]), int(st[3]), float(st[4]))


def put_agent(a):
    put(a.position, a.fit, a.lb, a.ub)


def sphere(x):
    return float(np.sum(x ** 2))


def np_sphere(x):
    return np.sum(x ** 2)


def shifted(x):
    return float(np.sum((x - 0.3) ** 2) + np.sum(np.abs(x)))


def nan_fn(x):
    return float('nan')


def const_fn(x):
    return 1.0


def make_agents(n, n_var, lo, hi, fn):
    agents = []
    for _ in range(n):
        a = Agent(n_variables=n_var, n_dimensions=1)
        a.lb = np.full(n_var, float(lo))
        a.ub = np.full(n_var, float(hi))
        a.position = np.random.uniform(lo, hi, (n_var, 1))
        a.fit = fn(a.position)
        agents.append(a)
    return agents


def neg_fn(x):
    return float(-np.sum(np.abs(x)))


FUNCS = [('sphere', sphere), ('np_sphere', np_sphere), ('shifted', shifted),
         ('nan', nan_fn), ('const', const_fn), ('neg', neg_fn)]

HYPER = [{}, {'f_min': 0, 'f_max': 2, 'A': 0.5, 'r': 0.5},
         {'f_min': 1, 'f_max': 1, 'A': 0, 'r': 0},
         {'f_min': 0.25, 'f_max': 3.5, 'A': 2, 'r': 1}]


def put_state(agents, best, frequency, velocity, loudness, pulse_rate):
    for a in agents:
        put_agent(a)
    put_agent(best)
    put(frequency, velocity, loudness, pulse_rate)
    put_rng()


# 1. _update called directly
for seed in range(5):
    for name, fn in FUNCS:
        for hp in HYPER:
            for n_agents, n_var in ((1, 1), (3, 2), (6, 4)):
                for mode in ('random', 'pulse0', 'pulse_hi', 'loud0', 'loud_hi'):
                    np.random.seed(seed)
                    agents = make_agents(n_agents, n_var, -2, 2, fn)
                    best = make_agents(1, n_var, -2, 2, fn)[0]
                    opt = BA(hyperparams=hp)
                    frequency = np.random.uniform(opt.f_min, opt.f_max, n_agents)
                    velocity = np.random.uniform(-1, 1, (n_agents, n_var, 1))
                    loudness = np.random.uniform(0, 1, n_agents)
                    pulse_rate = np.random.uniform(0, 1, n_agents)
                    if mode == 'pulse0':
                        pulse_rate[:] = 0
                    elif mode == 'pulse_hi':
                        pulse_rate[:] = 1.5
                    elif mode == 'loud0':
                        loudness[:] = 0
                    elif mode == 'loud_hi':
                        loudness[:] = 1.5
                    f = Function(pointer=fn)
                    orig = list(agents)
                    best_pos = best.position
                    for it in range(3):
                        out = opt._update(agents, best, f, it, frequency,
                                          velocity, loudness, pulse_rate)
                        put(out)
                        put_state(agents, best, frequency, velocity, loudness, pulse_rate)
                        put(*[a is b for a, b in zip(agents, orig)])
                        put(best.position is best_pos)
                        put(*[a.position is best.position for a in agents])

# 2. helpers on their own
for seed in range(4):
    np.random.seed(300 + seed)
    opt = BA()
    fr = opt._update_frequency(0.5, 2.5)
    put(fr)
    pos = np.random.uniform(-1, 1, (3, 1))
    bp = np.random.uniform(-1, 1, (3, 1))
    vel = np.random.uniform(-1, 1, (3, 1))
    nv = opt._update_velocity(pos, bp, fr[0], vel)
    put(nv, opt._update_position(pos, nv))
    put_rng()

# 3. run() through a SearchSpace
for seed in range(4):
    for name, fn in FUNCS:
        for hp in HYPER:
            np.random.seed(200 + seed)
            space = SearchSpace(n_agents=5, n_variables=3, n_iterations=10,
                                lower_bound=[-3, -2, -1], upper_bound=[3, 2, 1])
            hist = BA(hyperparams=hp).run(space, Function(pointer=fn))
            for a in space.agents:
                put_agent(a)
            put_agent(space.best_agent)
            for it in hist.best_agent:
                put(np.asarray(it[0]), it[1])
            put_rng()


# 4. exceptions / degenerate inputs
def bad(x):
    raise KeyError('boom')


def attempt(fn, n_agents, n_len, fit0=0.0):
    np.random.seed(7)
    agents = make_agents(n_agents, 2, -1, 1, sphere)
    best = make_agents(1, 2, -1, 1, sphere)[0]
    if fit0 is None:
        best.fit = None
    frequency = np.random.uniform(0, 1, n_len)
    velocity = np.random.uniform(-1, 1, (n_len, 2, 1))
    loudness = np.random.uniform(0, 1, n_len)
    pulse_rate = np.random.uniform(0, 1, n_len)
    try:
        BA()._update(agents, best, Function(pointer=fn), 1, frequency,
                     velocity, loudness, pulse_rate)
        put('ok')
    except Exception as ex:  # noqa
        put('EXC', type(ex).__name__)
    put_state(agents, best, frequency, velocity, loudness, pulse_rate)


attempt(sphere, 0, 0)
attempt(sphere, 3, 2)
attempt(bad, 3, 3)
attempt(sphere, 3, 3, fit0=None)
attempt(lambda x: None, 3, 3)

print(H.hexdigest())
