"""Exercises FPA._update (and its pollination helpers) on seeded inputs; last line is a digest."""
import hashlib
import logging

import numpy as np

logging.disable(logging.CRITICAL)

from opytimizer.core.function import Function
from opytimizer.optimizers.fpa import FPA
from opytimizer.spaces.search import SearchSpace

H = hashlib.sha256()


def feed(x):
    if isinstance(x, np.ndarray):
        H.update(('A' + str(x.shape) + str(x.dtype)).encode())
        for v in x.ravel().tolist():
            feed(v)
    elif isinstance(x, (float, np.floating)):
        H.update(('F' + float(x).hex()).encode())
    elif isinstance(x, (list, tuple)):
        H.update(('L%d' % len(x)).encode())
        for v in x:
            feed(v)
    else:
        H.update(('O' + repr(x)).encode())


def feed_rng():
    st = np.random.get_state()
    H.update(st[1].tobytes())
    H.update(str(st[2:]).encode())


def sphere(x):
    return np.sum(x ** 2)


def shifted(x):
    return float(np.sum(np.abs(x - 0.3)) + np.prod(np.cos(x)))


def nan_fn(x):
    return float('nan')


def boom(x):
    raise ZeroDivisionError('boom')


def snapshot(space):
    for a in space.agents:
        feed(a.position)
        feed(a.fit)
    feed(space.best_agent.position)
    feed(space.best_agent.fit)


def make(seed, n_agents, n_variables, lb, ub):
    np.random.seed(seed)
    return SearchSpace(n_agents=n_agents, n_variables=n_variables, n_iterations=5,
                       lower_bound=lb, upper_bound=ub)


# 1) direct _update calls, several probabilities / sizes / objectives
for seed in (0, 1, 7, 123):
    for p in (0, 0.2, 0.8, 1, 1.0):
        for n_agents, n_vars in ((1, 1), (2, 3), (6, 2)):
            for fn in (sphere, shifted, nan_fn):
                space = make(seed, n_agents, n_vars, [-5.0] * n_vars, [5.0] * n_vars)
                opt = FPA(hyperparams={'p': p, 'beta': 1.5, 'eta': 0.3})
                f = Function(pointer=fn)
                opt._evaluate(space, f)
                ids = [id(a) for a in space.agents]
                pos_ids = [id(a.position) for a in space.agents]
                for _ in range(4):
                    out = opt._update(space.agents, space.best_agent, f)
                    feed(out)
                    snapshot(space)
                    feed_rng()
                # identities of the agent objects are preserved, positions are replaced only on improvement
                feed([i == id(a) for i, a in zip(ids, space.agents)])
                feed([i == id(a.position) for i, a in zip(pos_ids, space.agents)])

# 2) helpers directly
np.random.seed(42)
opt = FPA()
x = np.random.uniform(-1, 1, (3, 1))
b = np.random.uniform(-1, 1, (3, 1))
k = np.random.uniform(-1, 1, (3, 1))
feed(opt._global_pollination(x, b))
feed(opt._local_pollination(x, b, k, 0.37))
feed(opt._local_pollination(x, b, k, np.array([0.5])))
feed_rng()

# 3) full seeded runs
for seed in (3, 11):
    for p in (0.0, 0.5, 0.8):
        space = make(seed, 5, 2, [-10, -2], [10, 2])
        opt = FPA(hyperparams={'p': p})
        hist = opt.run(space, Function(pointer=sphere))
        snapshot(space)
        feed_rng()
        for it in hist.best_agent:
            feed(it[0])
            feed(it[1])

# 4) edge cases and exceptions
opt = FPA()
np.random.seed(5)
feed(opt._update([], None, Function(pointer=sphere)))
feed_rng()

cases = []
space = make(9, 3, 2, [0, 0], [1, 1])
cases.append(('raising objective', lambda: FPA()._update(space.agents, space.best_agent, Function(pointer=boom))))
cases.append(('no best agent, global', lambda: FPA(hyperparams={'p': 0})._update(space.agents, None, Function(pointer=sphere))))
cases.append(('no best agent, local', lambda: FPA(hyperparams={'p': 1})._update(space.agents, None, Function(pointer=sphere))))
cases.append(('agents None', lambda: FPA()._update(None, space.best_agent, Function(pointer=sphere))))
cases.append(('function None', lambda: FPA()._update(space.agents, space.best_agent, None)))
cases.append(('agents of ints', lambda: FPA()._update([1, 2], space.best_agent, Function(pointer=sphere))))
for name, thunk in cases:
    np.random.seed(17)
    try:
        feed(thunk())
        feed(name + ': ok')
    except Exception as ex:  # noqa
        feed(name + ': ' + type(ex).__name__)
    feed_rng()
    snapshot(space)

print(H.hexdigest())
