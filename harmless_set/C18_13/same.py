"""Digest of the observable behaviour of opytimizer.math.random / opytimizer.math.distribution,
opytimizer.core.function.Function and opytimizer.functions.weighted.WeightedFunction.

The LAST printed line is a sha256 digest that must not depend on harmless refactorings.
"""

import functools
import hashlib
import re
import warnings

import numpy as np

warnings.simplefilter('ignore')

import opytimizer.math.distribution as d
import opytimizer.math.random as r
from opytimizer.core.function import Function
from opytimizer.functions.weighted import WeightedFunction

H = hashlib.sha256()


def put(*items):
    for it in items:
        H.update(repr(it).encode())
        H.update(b'|')


def enc(v):
    """Exact textual encoding of a result."""
    if isinstance(v, np.ndarray):
        flat = [enc(x) for x in v.ravel().tolist()]
        return ('nd', str(v.dtype), v.shape, flat)
    if isinstance(v, (float, np.floating)):
        return ('f', type(v).__name__, float(v).hex())
    if isinstance(v, (bool, np.bool_)):
        return ('b', bool(v))
    if isinstance(v, (int, np.integer)):
        return ('i', type(v).__name__, int(v))
    if isinstance(v, (list, tuple)):
        return (type(v).__name__, [enc(x) for x in v])
    return ('o', type(v).__name__, re.sub(r'0x[0-9a-fA-F]+', '0x?', repr(v)))


def stream():
    """Fingerprint of the position of the global random stream."""
    st = np.random.get_state()
    return hashlib.sha256(st[1].tobytes() + repr(st[2:]).encode()).hexdigest()


def call(label, fn, *args, **kwargs):
    try:
        out = fn(*args, **kwargs)
        put(label, 'ok', enc(out), stream())
        return out
    except BaseException as ex:  # noqa
        put(label, 'exc', type(ex).__module__, type(ex).__name__, re.sub(r'0x[0-9a-fA-F]+', '0x?', str(ex)), stream())
        return None


# --------------------------------------------------------------------- random
for seed in (0, 1, 7, 12345):
    np.random.seed(seed)
    call('u-default', r.generate_uniform_random_number)
    call('u-pos', r.generate_uniform_random_number, 0, 1, 5)
    call('u-kw', r.generate_uniform_random_number, low=-3.5, high=2.25, size=4)
    call('u-mixed', r.generate_uniform_random_number, -1, high=1, size=3)
    call('u-size0', r.generate_uniform_random_number, 0, 1, 0)
    call('u-none', r.generate_uniform_random_number, 0, 1, None)
    call('u-tuple', r.generate_uniform_random_number, 0, 1, (2, 3))
    call('u-arr', r.generate_uniform_random_number, np.array([0.0, -1.0]), np.array([1.0, 5.0]), 2)
    call('u-arr-bc', r.generate_uniform_random_number, [0.0, 1.0], [1.0, 2.0], (3, 2))
    call('u-swapped', r.generate_uniform_random_number, 1, 0, 3)
    call('u-equal', r.generate_uniform_random_number, 2, 2, 3)
    call('u-nan', r.generate_uniform_random_number, float('nan'), 1, 2)
    call('u-inf', r.generate_uniform_random_number, 0, float('inf'), 2)
    call('u-neg-size', r.generate_uniform_random_number, 0, 1, -1)
    call('u-bad-size', r.generate_uniform_random_number, 0, 1, 'a')
    call('u-bad-low', r.generate_uniform_random_number, 'a', 1, 1)
    call('u-float-size', r.generate_uniform_random_number, 0, 1, 2.5)
    call('u-shape-mismatch', r.generate_uniform_random_number, [0, 0, 0], 1, 2)
    call('g-default', r.generate_gaussian_random_number)
    call('g-pos', r.generate_gaussian_random_number, 0, 1, 3)
    call('g-kw', r.generate_gaussian_random_number, mean=2.5, variance=0.1, size=4)
    call('g-size-only', r.generate_gaussian_random_number, size=6)
    call('g-mixed', r.generate_gaussian_random_number, -1, variance=3, size=(2, 2))
    call('g-size0', r.generate_gaussian_random_number, 0, 1, 0)
    call('g-none', r.generate_gaussian_random_number, 0, 1, None)
    call('g-zero-var', r.generate_gaussian_random_number, 1.5, 0, 3)
    call('g-neg-var', r.generate_gaussian_random_number, 0, -1, 3)
    call('g-nan', r.generate_gaussian_random_number, float('nan'), 1, 2)
    call('g-arr', r.generate_gaussian_random_number, np.array([0.0, 10.0]), np.array([1.0, 0.5]), 2)
    call('g-neg-size', r.generate_gaussian_random_number, 0, 1, -2)
    call('g-bad-size', r.generate_gaussian_random_number, 0, 1, 'a')
    call('g-bad-mean', r.generate_gaussian_random_number, 'a', 1, 1)
    call('g-shape-mismatch', r.generate_gaussian_random_number, [0, 0, 0], 1, 2)
    call('u-too-many', r.generate_uniform_random_number, 0, 1, 1, 1)
    call('g-bad-kw', r.generate_gaussian_random_number, loc=1)

# --------------------------------------------------------------- distribution
for seed in (0, 3, 99):
    np.random.seed(seed)
    call('b-default', d.generate_bernoulli_distribution)
    for prob in (0.0, 0.3, 0.5, 1.0, 1.5, -0.1, float('nan'), float('inf')):
        for size in (0, 1, 2, 10):
            call(('b', prob, size), d.generate_bernoulli_distribution, prob, size)
    call('b-kw', d.generate_bernoulli_distribution, prob=0.7, size=6)
    call('b-tuple', d.generate_bernoulli_distribution, 0.5, (2, 2))
    call('b-neg', d.generate_bernoulli_distribution, 0.5, -1)
    call('b-none', d.generate_bernoulli_distribution, 0.5, None)
    call('b-float-size', d.generate_bernoulli_distribution, 0.5, 2.0)
    call('b-arr-prob', d.generate_bernoulli_distribution, np.array([0.2, 0.8]), 2)
    call('b-arr1-prob', d.generate_bernoulli_distribution, np.array([0.5]), 3)
    call('b-str-prob', d.generate_bernoulli_distribution, 'a', 2)
    call('b-str-prob-0', d.generate_bernoulli_distribution, 'a', 0)
    call('b-npint', d.generate_bernoulli_distribution, 0.4, np.int64(4))
    call('l-default', d.generate_levy_distribution)
    for beta in (0.1, 0.5, 1, 1.0, 1.5, 1.99, 2, 2.0, 3.0, 0.01, -0.5, -1, -1.0, -3, 0, 0.0,
                 float('nan'), float('inf'), 170.0, 171.0, 200.0, 1e-3, 1e-9):
        for size in (0, 1, 4):
            call(('l', beta, size), d.generate_levy_distribution, beta, size)
    call('l-kw', d.generate_levy_distribution, beta=1.5, size=7)
    call('l-tuple', d.generate_levy_distribution, 1.5, (2, 3))
    call('l-none', d.generate_levy_distribution, 1.5, None)
    call('l-neg', d.generate_levy_distribution, 1.5, -1)
    call('l-str', d.generate_levy_distribution, 'a', 1)
    call('l-npfloat', d.generate_levy_distribution, np.float64(1.5), 3)
    call('l-arr-beta', d.generate_levy_distribution, np.array([1.5]), 3)
    call('l-arr2-beta', d.generate_levy_distribution, np.array([1.5, 0.5]), 2)
    call('l-complex', d.generate_levy_distribution, 1j, 2)

# ------------------------------------------------------------------- Function


def sphere(x):
    return np.sum(x ** 2)


def two_args(x, y):
    return x + y


def no_args():
    return 1.0


def with_default(x=3):
    return x


def star_args(*args):
    return len(args)


def args_kwargs(*args, **kwargs):
    return 0


class CallableObj:
    def __call__(self, x):
        return float(np.sum(x)) + 1.0


class CallableTwo:
    def __call__(self, x, y):
        return 0.0


class NoSignature:
    """A callable whose signature cannot be determined."""
    __signature__ = 'not a signature'

    def __call__(self, x):
        return 0.0


cobj = CallableObj()
part = functools.partial(two_args, y=2.0)
part_pos = functools.partial(two_args, 1.0)
lam = lambda x: x  # noqa

xs = [np.array([1.0, 2.0, 3.0]), np.array([[0.1], [0.2]]), 2.5, np.array([])]

candidates = [('sphere', sphere), ('two_args', two_args), ('no_args', no_args), ('with_default', with_default),
              ('star_args', star_args), ('args_kwargs', args_kwargs), ('cobj', cobj), ('CallableTwo', CallableTwo()),
              ('NoSignature', NoSignature()), ('partial-kw', part), ('partial-pos', part_pos), ('lambda', lam),
              ('builtin-abs', abs), ('builtin-len', len), ('builtin-max', max), ('builtin-print', print),
              ('np.sum', np.sum), ('np.sin', np.sin), ('class-float', float), ('class-dict', dict),
              ('none', None), ('int', 3), ('str', 'sphere'), ('list', [sphere]), ('bound', cobj.__call__),
              ('callable', callable)]

for name, cand in candidates:
    f = call(('F', name), lambda c=cand: Function(pointer=c))
    if f is not None:
        put('F-id', name, f.pointer is cand, f._pointer is cand, f.built, f._built, sorted(vars(f)))
        for x in xs:
            call(('F-eval', name), lambda f=f, x=x: f.pointer(x))

call('F-default', lambda: (lambda f: (f.pointer is callable, f.built))(Function()))
call('F-positional', lambda: Function(sphere).pointer is sphere)

# Setters used on an existing instance
f = Function(pointer=sphere)
for name, cand in candidates:
    before = f.pointer
    call(('F-set', name), lambda c=cand: setattr(f, 'pointer', c))
    put('F-set-after', name, f.pointer is cand, f.pointer is before, f.built)
f.built = False
put('F-built', f.built)
call('F-rebuild', lambda: f._build(cobj))
put('F-rebuild-after', f.pointer is cobj, f.built)
call('F-rebuild-bad', lambda: f._build(two_args))
put('F-rebuild-bad-after', f.pointer is cobj, f.built)
f.built = False
call('F-rebuild-bad2', lambda: f._build(None))
put('F-rebuild-bad2-after', f.pointer is cobj, f.built)


# Subclass that observes how often / in which order the properties are used
class Spy(Function):
    log = []

    @property
    def pointer(self):
        Spy.log.append('get-pointer')
        return self._pointer

    @pointer.setter
    def pointer(self, pointer):
        Spy.log.append('set-pointer')
        Function.pointer.fset(self, pointer)

    @property
    def built(self):
        Spy.log.append('get-built')
        return self._built

    @built.setter
    def built(self, built):
        Spy.log.append(('set-built', built))
        self._built = built


s = Spy(pointer=sphere)
# The number of *reads* is an implementation detail of the debug message; writes are observable
put('spy-writes', [x for x in Spy.log if not (isinstance(x, str) and x.startswith('get'))])

# ----------------------------------------------------------- WeightedFunction


def f1(x):
    return float(np.sum(x ** 2))


def f2(x):
    return float(np.sum(np.abs(x) + 0.1))


def f3(x):
    return x * 0.3 + 0.1


def boom(x):
    raise KeyError('boom')


wf_cases = [
    ('empty', [], []),
    ('one', [f1], [1.0]),
    ('two', [f1, f2], [0.3, 0.7]),
    ('three', [f1, f2, f3], [0.1, 0.2, 0.7]),
    ('int-weights', [f1, f2], [1, 2]),
    ('more-weights', [f1, f2], [0.5, 0.25, 0.25]),
    ('more-functions', [f1, f2, f3], [0.5, 0.5]),
    ('no-weights', [f1, f2], []),
    ('array-valued', [f3, f3], [0.5, np.array([1.0, 2.0, 3.0])]),
    ('nan-weight', [f1, f2], [float('nan'), 1.0]),
    ('inf-weight', [f1, f2], [float('inf'), -float('inf')]),
    ('str-weight', [f1], ['a']),
    ('none-weight', [f1], [None]),
    ('callable-objs', [cobj, part, lam], [0.2, 0.3, 0.5]),
    ('boom', [f1, boom, f2], [0.2, 0.3, 0.5]),
    ('bad-second', [f1, two_args], [0.5, 0.5]),
    ('bad-noncallable', [f1, 3], [0.5, 0.5]),
    ('functions-tuple', (f1, f2), [0.5, 0.5]),
    ('weights-tuple', [f1, f2], (0.5, 0.5)),
    ('functions-none', None, [0.5]),
    ('weights-none', [f1], None),
    ('weights-array', [f1], np.array([1.0])),
    ('same-twice', [f1, f1], [0.1, 0.2]),
    ('tiny', [f1, f2, f1], [1e-17, 1.0, 1e17]),
]

pts = [np.array([1.0, -2.0, 3.0]), np.array([[0.5], [0.25]]), np.array([0.1, 0.2, 0.3]), 1.5, np.array([])]

for name, fs, ws in wf_cases:
    fs_in = list(fs) if isinstance(fs, list) else fs
    wf = call(('W', name), lambda: WeightedFunction(functions=fs, weights=ws))
    put('W-input-untouched', name, fs == fs_in if isinstance(fs, list) else None)
    if wf is None:
        continue
    put('W-attrs', name, sorted(vars(wf)), wf.built, wf.weights is ws, wf.functions is fs,
        [type(g).__name__ for g in wf.functions], [g.pointer is o for g, o in zip(wf.functions, fs)],
        [g.built for g in wf.functions], callable(wf.pointer), wf.pointer.__name__, wf.pointer.__qualname__,
        type(wf.pointer).__name__)
    for x in pts:
        call(('W-eval', name), lambda: wf.pointer(x))
    # The strategy reads functions / weights at call time
    p_before = wf.pointer
    if isinstance(ws, list) and len(ws) > 0 and isinstance(ws[0], float):
        ws[0] = ws[0] * 2
        call(('W-eval-mutated-w', name), lambda: wf.pointer(pts[0]))
        wf.weights = [0.25] * len(ws)
        call(('W-eval-new-w', name), lambda: wf.pointer(pts[0]))
        wf.functions = list(reversed(wf.functions))
        call(('W-eval-reversed', name), lambda: wf.pointer(pts[2]))
        put('W-pointer-stable', wf.pointer is p_before)
        # every call of _create_strategy gives a fresh closure
        q = wf._create_strategy()
        put('W-fresh', q is p_before, q.__name__)
        call(('W-fresh-eval', name), lambda: enc(q(pts[2])) == enc(p_before(pts[2])))

call('W-default', lambda: (lambda w: (w.functions, w.weights, w.built, enc(w.pointer(pts[0]))))(WeightedFunction()))
call('W-positional', lambda: enc(WeightedFunction([f1, f2], [0.5, 0.5]).pointer(pts[0])))
for name, val in (('tuple', (f1,)), ('none', None), ('dict', {}), ('list', [f1])):
    w = WeightedFunction([f1], [1.0])
    call(('W-set-functions', name), lambda: setattr(w, 'functions', val))
    call(('W-set-weights', name), lambda: setattr(w, 'weights', val))
    put('W-set-after', name, w.functions is val, w.weights is val)

# The weighted objective wrapped in Function (exactly one parameter) and in a full seeded run
wf = WeightedFunction([f1, f2], [0.4, 0.6])
call('W-in-Function', lambda: Function(pointer=wf.pointer).pointer is wf.pointer)


# Order of evaluation of the objectives / weights inside the strategy
class Tracer:
    log = []

    def __init__(self, tag, val):
        self.tag = tag
        self.val = val

    def __call__(self, x):
        Tracer.log.append(('call', self.tag))
        return self.val


class W:
    def __init__(self, tag, val):
        self.tag = tag
        self.val = val

    def __mul__(self, other):
        Tracer.log.append(('mul', self.tag))
        return self.val * other


wt = WeightedFunction([Tracer('a', 0.1), Tracer('b', 0.2), Tracer('c', 0.3)], [W('wa', 3.0), W('wb', 7.0), W('wc', 11.0)])
call('W-trace', lambda: wt.pointer(0))
put('W-trace-log', Tracer.log)

try:
    from opytimizer import Opytimizer
    from opytimizer.core.function import Function as F2
    from opytimizer.optimizers.pso import PSO
    from opytimizer.spaces.search import SearchSpace

    for seed in (0, 5):
        np.random.seed(seed)
        space = SearchSpace(n_agents=4, n_iterations=5, n_variables=3,
                            lower_bound=[-5, -5, -5], upper_bound=[5, 5, 5])
        opt = Opytimizer(space=space, optimizer=PSO(), function=WeightedFunction([f1, f2], [0.4, 0.6]))
        hist = opt.start()
        put('run', seed, enc(space.best_agent.position), enc(space.best_agent.fit),
            [enc(a.position) for a in space.agents], stream())
except BaseException as ex:  # noqa
    put('run-exc', type(ex).__name__, str(ex))

print(H.hexdigest())
