"""Behaviour digest for WeightedFunction / Function (property C16).

Run as:
    cd /tmp/harmless/C16 && PYTHONPATH=/tmp/harmless/C16 /venv/bin/python harmlessX/same.py

Prints a sha256 digest over every observation made; the digest has to be the
same with and without the change.
"""

import functools
import hashlib
import logging

import numpy as np

logging.disable(logging.CRITICAL)

import opytimizer.math.benchmark as b
from opytimizer import Opytimizer
from opytimizer.core.function import Function
from opytimizer.functions.weighted import WeightedFunction
from opytimizer.optimizers.fa import FA
from opytimizer.optimizers.pso import PSO
from opytimizer.spaces.search import SearchSpace

H = hashlib.sha256()
N = [0]


def put(*items):
    for it in items:
        H.update(enc(it).encode())
        H.update(b'|')
        N[0] += 1


def enc(v):
    if isinstance(v, (bool, np.bool_)):
        return 'b' + str(bool(v))
    if isinstance(v, (float, np.floating)):
        return type(v).__name__ + ':' + float(v).hex()
    if isinstance(v, (int, np.integer)):
        return type(v).__name__ + ':' + str(int(v))
    if isinstance(v, complex):
        return 'c:' + v.real.hex() + ',' + v.imag.hex()
    if isinstance(v, np.ndarray):
        return 'a:' + str(v.dtype) + str(v.shape) + '[' + ','.join(enc(t) for t in v.ravel().tolist()) + ']'
    if isinstance(v, (list, tuple)):
        return type(v).__name__ + '[' + ','.join(enc(t) for t in v) + ']'
    if v is None:
        return 'None'
    return type(v).__name__ + ':' + str(v)


def attempt(fn):
    """Runs fn; records either the result or the exception type and message."""
    try:
        r = fn()
    except BaseException as ex:  # noqa
        put('EXC', type(ex).__module__ + '.' + type(ex).__name__, str(ex))
        return None
    put('OK', r)
    return r


class Counter:
    """Callable component (single parameter) that counts calls and remembers its arguments."""

    def __init__(self, fn, name):
        self.fn = fn
        self.calls = 0
        self.args = []
        self.__name__ = name

    def __call__(self, x):
        self.calls += 1
        self.args.append(x)
        return self.fn(x)


def make_counter(fn, name):
    c = Counter(fn, name)

    def component(x):
        return c(x)
    component.__name__ = name
    return component, c


def square(x):
    return x ** 2


def cube(x):
    return x ** 3


def total(x):
    return np.sum(x)


def shifted(x):
    return np.sum((x - 1.5) ** 2)


def first(x):
    return x[0]


def two_args(x, y):
    return x + y


def no_args():
    return 1.0


def with_default(x=3.0):
    return x * 2.0


class CallableObject:
    def __call__(self, x):
        return np.sum(x) * 3.0


# ---------------------------------------------------------------------------
# 1. Construction: defaults, validation, attribute state
# ---------------------------------------------------------------------------
w0 = WeightedFunction()
put(type(w0.functions).__name__, len(w0.functions), type(w0.weights).__name__, len(w0.weights), w0.built,
    type(w0.pointer).__name__, w0.pointer.__name__)
attempt(lambda: w0.pointer(3.0))
attempt(lambda: w0.pointer(np.array([1.0, 2.0])))

for bad in (None, (square,), 'abc', 3, {}):
    attempt(lambda bad=bad: WeightedFunction(functions=bad, weights=[1.0]))
    attempt(lambda bad=bad: WeightedFunction(functions=[square], weights=bad))
    attempt(lambda bad=bad: WeightedFunction(functions=bad, weights=bad))

for bad_component in (1, None, 'f', two_args, [square], max, functools.partial(two_args, 1.0)):
    attempt(lambda c=bad_component: type(WeightedFunction(functions=[square, c], weights=[1.0, 2.0])).__name__)
    attempt(lambda c=bad_component: type(WeightedFunction(functions=[c, square], weights=[1.0, 2.0])).__name__)
    attempt(lambda c=bad_component: type(Function(pointer=c)).__name__)

for good in (square, no_args, with_default, np.sum, lambda x: x, functools.partial(two_args, y=1.0)):
    attempt(lambda g=good: Function(pointer=g).built)
# A callable object has no __name__: whatever happens has to happen identically
attempt(lambda: Function(pointer=CallableObject()).built)
attempt(lambda: Function().built)
attempt(lambda: Function(pointer=print).built)
attempt(lambda: Function(pointer=int).built)

f = Function(pointer=square)
put(f.pointer is square, f.built, f.pointer(3.0))
attempt(lambda: setattr(f, 'pointer', two_args))
put(f.pointer is square)
attempt(lambda: setattr(f, 'pointer', 5))
put(f.pointer is square)
attempt(lambda: setattr(f, 'pointer', cube))
put(f.pointer is cube, f.pointer(3.0))
f.built = 'anything'
put(f.built)

# The wrapped components are Function instances holding the original callables, in order
wf = WeightedFunction(functions=[square, cube, total], weights=[1.0, 2.0, 3.0])
put([type(g).__name__ for g in wf.functions], [g.pointer.__name__ for g in wf.functions],
    [g.built for g in wf.functions], wf.functions[0].pointer is square, wf.functions[2].pointer is total,
    wf.weights, wf.built)
src = [square, cube]
wts = [0.5, 0.5]
wf = WeightedFunction(functions=src, weights=wts)
put(wf.weights is wts, wf.functions is src, len(src), src[0] is square, type(src[0]).__name__)

# ---------------------------------------------------------------------------
# 2. Values: weight vectors x inputs, call counts, argument identity
# ---------------------------------------------------------------------------
rng = np.random.RandomState(1234)
bases = [square, cube, total, shifted, first, b.sphere, b.exponential, np.sum, np.prod]
inputs = [
    np.array([0.0]), np.array([1.0, -2.0, 3.5]), np.zeros(4), np.full(3, 1e154), np.array([1e-320, -0.0]),
    np.array([np.inf, 1.0]), np.array([np.nan, 1.0]), rng.uniform(-10, 10, size=(5, 1)), rng.normal(size=(3, 2)),
    np.array([1, 2, 3]), np.array([7.5], dtype=np.float32), rng.uniform(-1, 1, size=7),
]
special_w = [0.0, -0.0, 1.0, -1.0, 0.5, 1e308, -1e308, 1e-308, 3, -7, np.float32(0.1), np.inf, np.nan, True]

for trial in range(160):
    k = int(rng.randint(1, 7))
    comps = [bases[int(i)] for i in rng.randint(0, len(bases), size=k)]
    mode = trial % 4
    if mode == 0:
        weights = [float(v) for v in rng.uniform(-5, 5, size=k)]
    elif mode == 1:
        weights = [special_w[int(i)] for i in rng.randint(0, len(special_w), size=k)]
    elif mode == 2:
        weights = [float(v) for v in rng.normal(size=k) * 10.0 ** rng.randint(-300, 300, size=k)]
    else:
        weights = [0.0] * k
    wrapped, counters = zip(*[make_counter(c, c.__name__) for c in comps])
    wf = WeightedFunction(functions=list(wrapped), weights=list(weights))
    put(k, [g.pointer.__name__ for g in wf.functions], wf.weights)
    for x in inputs:
        before = x.copy()
        with np.errstate(all='ignore'):
            attempt(lambda: wf.pointer(x))
        put([c.calls for c in counters], all(c.args[-1] is x for c in counters if c.args),
            np.array_equal(before, x, equal_nan=True))
    # scalar inputs (only for components that accept scalars fail identically otherwise)
    with np.errstate(all='ignore'):
        attempt(lambda: wf.pointer(2))
        attempt(lambda: wf.pointer(-1.5))
    put([c.calls for c in counters])

# Order of evaluation of the components
order = []


def tracer(tag, fn):
    def component(x):
        order.append(tag)
        return fn(x)
    return component


wf = WeightedFunction(functions=[tracer(i, bases[i % len(bases)]) for i in range(9)],
                      weights=[float(i) - 4.0 for i in range(9)])
attempt(lambda: wf.pointer(np.array([0.5, 0.25, 2.0])))
put(order)

# Mismatched lengths (zip stops at the shortest list)
for nf, nw in ((1, 3), (3, 1), (0, 2), (2, 0), (4, 2)):
    order.clear()
    wf = WeightedFunction(functions=[tracer(i, square) for i in range(nf)], weights=[float(i + 1) for i in range(nw)])
    attempt(lambda: wf.pointer(3.0))
    attempt(lambda: wf.pointer(np.array([1.0, 2.0])))
    put(order, len(wf.functions), len(wf.weights))

# A component that raises: earlier ones were evaluated, later ones not
order.clear()


def boom(x):
    order.append('boom')
    raise ValueError('component failed')


wf = WeightedFunction(functions=[tracer('a', square), boom, tracer('c', cube)], weights=[1.0, 2.0, 3.0])
attempt(lambda: wf.pointer(2.0))
put(order)

# Accumulation semantics: the accumulator is updated in place after the first term
wf = WeightedFunction(functions=[lambda x: x, lambda x: x * 0.5], weights=[1, 1])
attempt(lambda: wf.pointer(np.array([1, 2, 3])))        # int accumulator + float term
attempt(lambda: wf.pointer(np.array([1.0, 2.0, 3.0])))
wf = WeightedFunction(functions=[lambda x: x, lambda x: x * 0.5], weights=[1.0, 1])
attempt(lambda: wf.pointer(np.array([1, 2, 3])))
wf = WeightedFunction(functions=[lambda x: x[:1], lambda x: x], weights=[1.0, 1.0])
attempt(lambda: wf.pointer(np.array([1.0, 2.0, 3.0])))  # broadcasting into a smaller accumulator fails
wf = WeightedFunction(functions=[lambda x: x, lambda x: x[:1]], weights=[1.0, 1.0])
attempt(lambda: wf.pointer(np.array([1.0, 2.0, 3.0])))
wf = WeightedFunction(functions=[lambda x: x, lambda x: x], weights=[1, 1])
x = np.array([1.0, 2.0])
r = attempt(lambda: wf.pointer(x))
put(r is x, x)
wf = WeightedFunction(functions=[lambda x: [x], lambda x: [x, x]], weights=[2, 3])
attempt(lambda: wf.pointer(1.0))                         # int * list terms
wf = WeightedFunction(functions=[lambda x: 'ab'], weights=[2])
attempt(lambda: wf.pointer(1.0))
wf = WeightedFunction(functions=[lambda x: x], weights=['w'])
attempt(lambda: wf.pointer(1.0))
wf = WeightedFunction(functions=[lambda x: x, lambda x: 1j * x], weights=[1.0, 2.0])
attempt(lambda: wf.pointer(1.5))
attempt(lambda: wf.pointer(np.array([1.5, 2.5])))

# Late binding: the strategy reads functions and weights when called
wf = WeightedFunction(functions=[square, cube], weights=[1.0, 1.0])
p = wf.pointer
put(p(2.0))
wf.weights = [10.0, 100.0]
put(p(2.0))
wf.weights[0] = -1.0
put(p(2.0))
wf.functions = [Function(pointer=total)]
put(p(np.array([1.0, 2.0])))
wf.functions = [1, 2]
attempt(lambda: p(2.0))
attempt(lambda: setattr(wf, 'weights', None))
attempt(lambda: setattr(wf, 'functions', None))
put(wf.weights)
q = wf._create_strategy()
put(q is p, q.__name__, type(q).__name__, q.__qualname__)
wf._build([shifted, first])
put(wf.pointer is p, [g.pointer.__name__ for g in wf.functions], wf.built)
put(p(np.array([2.0, 4.0])), wf.pointer(np.array([2.0, 4.0])))
attempt(lambda: wf._build([shifted, 3]))
put([type(g).__name__ for g in wf.functions])
attempt(lambda: wf._build(None))
attempt(lambda: wf._build(iter([square, cube])))
put([g.pointer.__name__ for g in wf.functions])

# A weighted function can be wrapped again / nested
inner = WeightedFunction(functions=[square, cube], weights=[0.25, 0.75])
outer = WeightedFunction(functions=[inner.pointer, total], weights=[2.0, -1.0])
attempt(lambda: outer.pointer(np.array([1.5])))
attempt(lambda: Function(pointer=inner.pointer).pointer(3.0))

# ---------------------------------------------------------------------------
# 3. Seeded optimisation runs with a weighted objective
# ---------------------------------------------------------------------------


def run(opt_cls, hyperparams, seed, weights, comps, n_agents=6, n_vars=3, n_iter=12):
    np.random.seed(seed)
    s = SearchSpace(n_agents=n_agents, n_iterations=n_iter, n_variables=n_vars,
                    lower_bound=[-10] * n_vars, upper_bound=[10] * n_vars)
    wrapped, counters = zip(*[make_counter(c, c.__name__) for c in comps])
    z = WeightedFunction(functions=list(wrapped), weights=weights)
    o = Opytimizer(space=s, optimizer=opt_cls(hyperparams=hyperparams), function=z)
    h = o.start()
    put(opt_cls.__name__, seed, [c.calls for c in counters])
    for agents, best in zip(h.agents, h.best_agent):
        for pos, fit in agents:
            put(np.asarray(pos), fit)
        put(np.asarray(best[0]), best[1])
    put(np.random.uniform())  # the random stream ends in the same state


for seed in (0, 1, 7):
    run(PSO, {'w': 0.7, 'c1': 1.7, 'c2': 1.7}, seed, [0.5, 0.5], [b.sphere, b.exponential])
    run(PSO, {'w': 0.7, 'c1': 1.7, 'c2': 1.7}, seed, [1.0, -2.0, 0.0], [b.sphere, shifted, total])
    run(FA, {'alpha': 0.5, 'beta': 0.2, 'gamma': 1.0}, seed, [0.3, 0.7], [b.sphere, b.exponential])
    run(FA, {'alpha': 0.5, 'beta': 0.2, 'gamma': 1.0}, seed, [1e3], [shifted], n_agents=4, n_vars=1, n_iter=5)

print('observations:', N[0])
print('digest:', H.hexdigest())
