"""Digest of seeded GP runs; exercises the Node traversals (pre_order, post_order, _properties, find_node) on hand-built and grown trees and through whole GP runs.

Run as: cd /tmp/harmless/C12 && PYTHONPATH=/tmp/harmless/C12 /venv/bin/python harmlessC/same.py
"""
import hashlib
import logging
import warnings

import numpy as np

logging.disable(logging.CRITICAL)
warnings.filterwarnings('ignore')
np.seterr(all='ignore')

from opytimizer.core.function import Function
from opytimizer.optimizers.gp import GP
from opytimizer.spaces.tree import TreeSpace

H = hashlib.sha256()


def put(x):
    """Feeds any (nested) value into the digest, floats as hex."""
    if isinstance(x, np.ndarray):
        put(('nd', x.shape, str(x.dtype)))
        for v in x.ravel().tolist():
            put(v)
    elif isinstance(x, (float, np.floating)):
        H.update(float(x).hex().encode())
        H.update(b';')
    elif isinstance(x, (list, tuple)):
        H.update(b'[')
        for v in x:
            put(v)
        H.update(b']')
    else:
        H.update(repr(x).encode())
        H.update(b';')


def put_tree(tree):
    """Structure (pre- and post-order), terminal values, properties and position of a tree."""
    for node in tree.pre_order:
        put(repr(node))
        put(node.parent is None)
        if node.type == 'TERMINAL':
            put(node.value)
    put([repr(n) for n in tree.post_order])
    put((tree.n_nodes, tree.n_leaves, tree.min_depth, tree.max_depth))
    put(tree.position)


def put_rng():
    state = np.random.get_state()
    put(state[0])
    put(hashlib.sha256(state[1].tobytes()).hexdigest())
    put(state[2:])


def sphere(x):
    return np.sum(x ** 2)


def shifted(x):
    return np.sum((x - 3.0) ** 2) - 7.0


def sign_changing(x):
    return np.sum(np.sin(x) * x)


def nan_prone(x):
    # NaN / inf positions from EXP, LOG, DIV trees are clipped or stay NaN
    return np.sum(np.sqrt(x - 1.0))


def robust(x):
    # NaN coordinates are mapped to a finite value so that the run completes
    return np.sum(np.nan_to_num(x, nan=5.0, posinf=9.0, neginf=-9.0) ** 2)


ARITH = ['SUM', 'SUB', 'MUL', 'DIV']
UNARY = ['EXP', 'LOG', 'SQRT', 'ABS', 'COS', 'SIN']

CONFIGS = [
    # (space kwargs, GP hyperparams, objective)
    (dict(n_trees=10, n_terminals=2, n_variables=1, n_iterations=15, min_depth=1, max_depth=3,
          functions=ARITH, lower_bound=[0], upper_bound=[10]), {}, sphere),
    (dict(n_trees=12, n_terminals=3, n_variables=2, n_iterations=12, min_depth=2, max_depth=4,
          functions=UNARY, lower_bound=[-5, 0], upper_bound=[5, 10]), {}, shifted),
    (dict(n_trees=8, n_terminals=1, n_variables=3, n_iterations=10, min_depth=1, max_depth=5,
          functions=ARITH + UNARY, lower_bound=[-1, -2, -3], upper_bound=[1, 2, 3]),
     dict(p_reproduction=1, p_mutation=1, p_crossover=1, prunning_ratio=0), sign_changing),
    (dict(n_trees=9, n_terminals=4, n_variables=2, n_iterations=10, min_depth=1, max_depth=4,
          functions=ARITH + UNARY, lower_bound=[-10, -10], upper_bound=[10, 10]),
     dict(p_reproduction=0.5, p_mutation=0.9, p_crossover=0.7, prunning_ratio=1), nan_prone),
    (dict(n_trees=6, n_terminals=2, n_variables=1, n_iterations=8, min_depth=1, max_depth=2,
          functions=['SUM'], lower_bound=[0], upper_bound=[1]),
     dict(p_reproduction=0, p_mutation=0, p_crossover=0, prunning_ratio=0.5), sphere),
    # single tree, depth range collapsed to terminals only
    (dict(n_trees=1, n_terminals=2, n_variables=2, n_iterations=5, min_depth=3, max_depth=3,
          functions=ARITH, lower_bound=[0, 0], upper_bound=[1, 1]),
     dict(p_reproduction=1, p_mutation=1, p_crossover=1, prunning_ratio=0.3), shifted),
    # no functions at all: every tree is one terminal, mutation regrows
    (dict(n_trees=5, n_terminals=3, n_variables=1, n_iterations=6, min_depth=1, max_depth=3,
          functions=[], lower_bound=[-4], upper_bound=[4]),
     dict(p_reproduction=0.4, p_mutation=1, p_crossover=1, prunning_ratio=0), sign_changing),
    # full pruning (crossover / mutation points always 2), every operator always applied
    (dict(n_trees=10, n_terminals=2, n_variables=2, n_iterations=12, min_depth=1, max_depth=5,
          functions=ARITH + UNARY, lower_bound=[-10, -10], upper_bound=[10, 10]),
     dict(p_reproduction=1, p_mutation=1, p_crossover=1, prunning_ratio=1), robust),
    (dict(n_trees=11, n_terminals=2, n_variables=1, n_iterations=12, min_depth=1, max_depth=6,
          functions=ARITH + UNARY, lower_bound=[-10], upper_bound=[10]),
     dict(p_reproduction=0.3, p_mutation=0.5, p_crossover=0.5, prunning_ratio=0), robust),
]


def run(cfg_id, seed, store_best_only):
    kwargs, hyper, objective = CONFIGS[cfg_id]
    np.random.seed(seed)
    space = TreeSpace(**kwargs)
    optimizer = GP(hyperparams=dict(hyper))
    function = Function(pointer=objective)

    put(('start', cfg_id, seed, store_best_only))
    for tree in space.trees:
        put_tree(tree)
    put_tree(space.best_tree)

    # A lone _evaluate call first (initial state of the best agent is fit = max float)
    put(space.best_agent.fit)
    optimizer._evaluate(space, function)
    put(space.best_agent.position)
    put(space.best_agent.fit)
    put_tree(space.best_tree)
    put(any(space.best_tree is t for t in space.trees))

    calls = []

    def hook(opt, spc, fn):
        calls.append(len(spc.trees))

    # NaN fitness makes the tournament selection raise; the exception is part of the behaviour
    history = None
    try:
        history = optimizer.run(space, function, store_best_only=store_best_only,
                                pre_evaluation_hook=hook)
    except Exception as exc:
        put(('raised', type(exc).__name__, str(exc)))

    put(calls)
    if history is not None:
        put(history.best_agent)
        if not store_best_only:
            put(history.agents)
            for tree in history.best_tree:
                put_tree(tree)
    put((len(space.trees), len(space.agents)))
    for tree, agent in zip(space.trees, space.agents):
        put_tree(tree)
        put(agent.position)
        put(agent.fit)
        put(agent.lb)
        put(agent.ub)
    for terminal in space.terminals:
        put(terminal.position)
        put(terminal.lb)
        put(terminal.ub)
    put_tree(space.best_tree)
    put(space.best_agent.position)
    put(space.best_agent.fit)
    put(any(space.best_tree is t for t in space.trees))
    put(any(space.best_agent.position is a.position for a in space.agents))
    put_rng()


from opytimizer.core import node as node_module
from opytimizer.core.node import Node


def leaf(k):
    return Node(name=k, type='TERMINAL', value=np.array([[float(k)], [k / 3.0]]))


def fn(name, left=None, right=None):
    f = Node(name=name, type='FUNCTION')
    if left is not None:
        f.left = left
        left.parent = f
        left.flag = True
    if right is not None:
        f.right = right
        right.parent = f
        right.flag = False
    return f


def chain(depth, side):
    """Degenerate tree: a chain of unary nodes hanging on the given side."""
    tree = leaf(depth)
    for d in range(depth):
        tree = fn('ABS', tree, None) if side == 'L' else fn('ABS', None, tree)
    return tree


def full(depth, counter=[0]):
    if depth == 0:
        counter[0] += 1
        return leaf(counter[0])
    return fn(('SUM', 'SUB', 'MUL', 'DIV')[depth % 4], full(depth - 1), full(depth - 1))


def put_traversals(tree):
    pre = tree.pre_order
    post = tree.post_order
    put([repr(n) for n in pre])
    put([repr(n) for n in post])
    # the same node objects, in which order
    put([pre.index(n) for n in post])
    put((tree.n_nodes, tree.n_leaves, tree.min_depth, tree.max_depth))
    put(sorted(node_module._properties(tree).items()))
    for position in range(-len(pre) - 2, len(pre) + 3):
        try:
            found, flag = tree.find_node(position)
        except Exception as exc:
            put(('raised', position, type(exc).__name__, str(exc)))
            continue
        put((position, None if found is None else pre.index(found), flag))
    # every sub-tree as a root of its own traversal
    for n in pre:
        put([repr(m) for m in n.pre_order])
        put([repr(m) for m in n.post_order])
        put((n.n_nodes, n.n_leaves, n.min_depth, n.max_depth))
    put(str(tree))


HAND_BUILT = [
    leaf(0),
    fn('SUM'),                       # childless function node
    fn('EXP', leaf(1)),              # left child only
    fn('EXP', None, leaf(2)),        # right child only
    fn('SUM', leaf(1), leaf(2)),
    fn('SUB', fn('COS', leaf(1)), leaf(2)),
    fn('MUL', leaf(1), fn('DIV', leaf(2), fn('LOG', leaf(3)))),
    fn('DIV', fn('SUM', leaf(1), leaf(2)), fn('SIN', None, leaf(3))),
    chain(1, 'L'), chain(1, 'R'), chain(9, 'L'), chain(9, 'R'), chain(300, 'L'), chain(300, 'R'),
    full(1), full(2), full(3), full(6),
]

for tree in HAND_BUILT:
    put_traversals(tree)

# Traversal helpers on a missing node
try:
    put(node_module._properties(None))
except Exception as exc:
    put(('raised', type(exc).__name__, str(exc)))

# Grown trees of several shapes
for seed in (0, 5, 11):
    np.random.seed(seed)
    grower = TreeSpace(n_trees=2, n_terminals=3, n_variables=2, n_iterations=1, min_depth=1, max_depth=3,
                       functions=ARITH + UNARY, lower_bound=[-1, -1], upper_bound=[1, 1])
    for depth in ((1, 1), (1, 3), (1, 8), (1, 12)):
        put_traversals(grower.grow(*depth))
    put_rng()

for cfg_id in range(len(CONFIGS)):
    for seed in (0, 1, 7, 12345):
        run(cfg_id, seed, store_best_only=(seed == 7))

print(H.hexdigest())
