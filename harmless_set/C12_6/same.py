"""Behaviour digest for GP._update / GP._evaluate / GP.run.

Run as:
    cd /tmp/harmless5/gprun && PYTHONPATH=/tmp/harmless5/gprun /venv/bin/python harmlessX/same.py

The last line printed is a sha256 digest over everything observable: histories,
agents, trees, best agent / best tree, aliasing facts, exception types, the order
in which operators / hooks / objectives are called, the messages logged by the
optimizer and the state of NumPy's global random generator after each scenario.
"""

import hashlib
import logging
import sys

import numpy as np

import opytimizer.optimizers.gp as gp_module
from opytimizer.core import function
from opytimizer.optimizers import gp
from opytimizer.spaces import tree

# ---------------------------------------------------------------- log capture
LOGGED = []


class _Capture(logging.Handler):
    def emit(self, record):
        LOGGED.append(record.getMessage())


for _name in list(logging.root.manager.loggerDict):
    if _name.startswith('opytimizer'):
        _lg = logging.getLogger(_name)
        for _h in list(_lg.handlers):
            _lg.removeHandler(_h)
            _h.close()
gp_module.logger.addHandler(_Capture())

# -------------------------------------------------------------------- digest
OUT = []


def enc(x):
    """Canonical, bit-exact text form of a value."""
    if x is None or isinstance(x, (bool, str)):
        return repr(x)
    if isinstance(x, (int, np.integer)):
        return 'i%d' % int(x)
    if isinstance(x, (float, np.floating)):
        return type(x).__name__ + ':' + float(x).hex()
    if isinstance(x, np.ndarray):
        return 'a%s%s[%s]' % (x.dtype, x.shape,
                              ','.join(enc(v) for v in x.ravel().tolist()))
    if isinstance(x, (list, tuple)):
        return type(x).__name__ + '(' + ','.join(enc(v) for v in x) + ')'
    return 'o:' + str(x)


def emit(*items):
    OUT.append(' '.join(i if isinstance(i, str) else enc(i) for i in items))


def rng_state():
    s = np.random.get_state()
    return hashlib.sha256(s[1].tobytes() + repr(s[2:]).encode()).hexdigest()[:16]


def dump_space(space):
    for k, (t, a) in enumerate(zip(space.trees, space.agents)):
        emit('tree', k, str(t), enc(t.n_nodes), enc(t.position))
        emit('agent', k, enc(a.position), enc(a.fit))
    emit('best_agent', enc(space.best_agent.position), enc(space.best_agent.fit))
    emit('best_tree', str(space.best_tree), enc(space.best_tree.position)
         if space.best_tree is not None else 'None')
    # aliasing facts visible from outside
    emit('alias',
         any(a.position is space.best_agent.position for a in space.agents),
         any(t is space.best_tree for t in space.trees),
         any(a.position is t.position for a, t in zip(space.agents, space.trees)),
         len(set(map(id, space.agents))), len(set(map(id, space.trees))))


def dump_history(space, hist):
    emit('hist.store_best_only', enc(hist.store_best_only))
    for key in ('agents', 'best_agent'):
        if hasattr(hist, key):
            emit('hist.' + key, enc(getattr(hist, key)))
        else:
            emit('hist.' + key, 'absent')
    if hasattr(hist, 'best_tree'):
        bt = hist.best_tree
        emit('hist.best_tree', enc([str(b) for b in bt]))
        emit('hist.best_tree.alias', bt[-1] is space.best_tree,
             len(set(map(id, bt))))
    else:
        emit('hist.best_tree', 'absent')
    emit('hist.keys', enc(sorted(vars(hist))))


# ---------------------------------------------------------------- objectives
def sphere(x):
    return np.sum(x ** 2)


def shifted(x):
    return float(np.sum((x - 1.5) ** 2))


def plateau(x):
    # many ties: exercises `<` (not `<=`) in the best update
    return float(np.floor(np.sum(np.abs(x))))


def array_fit(x):
    # fitness is a size-one array
    return np.sum(x ** 2, axis=0)


def make_nan_every(k):
    calls = {'n': 0}

    def nan_every(x):
        calls['n'] += 1
        if calls['n'] % k == 0:
            return float('nan')
        return float(np.sum(x ** 2))
    return nan_every


def make_raise_at(k, exc):
    calls = {'n': 0}

    def raise_at(x):
        calls['n'] += 1
        if calls['n'] == k:
            raise exc('objective failed at call %d' % k)
        return float(np.sum(x ** 2))
    return raise_at


def vector_fit(x):
    # ambiguous truth value once compared
    return np.array([np.sum(x ** 2), 1.0])


class Tracing(gp.GP):
    """Records the order of everything GP.run / _update / _evaluate call."""

    def __init__(self, *a, **k):
        self.trace = []
        super().__init__(*a, **k)

    def _reproduction(self, space):
        self.trace.append('R' + rng_state()[:6])
        return super()._reproduction(space)

    def _crossover(self, space):
        self.trace.append('C' + rng_state()[:6])
        return super()._crossover(space)

    def _mutation(self, space):
        self.trace.append('M' + rng_state()[:6])
        return super()._mutation(space)

    def _update(self, space):
        self.trace.append('U')
        r = super()._update(space)
        self.trace.append('u:' + enc(r))
        return r

    def _evaluate(self, space, function):
        self.trace.append('E')
        r = super()._evaluate(space, function)
        self.trace.append('e:' + enc(r))
        return r


def new_space(seed, **kw):
    np.random.seed(seed)
    args = dict(n_trees=8, n_terminals=3, n_variables=2, n_iterations=5,
                min_depth=1, max_depth=4,
                functions=['SUM', 'SUB', 'MUL', 'DIV'],
                lower_bound=[-5, -5], upper_bound=[5, 5])
    args.update(kw)
    return tree.TreeSpace(**args)


def scenario(label, body):
    emit('==', label)
    del LOGGED[:]
    try:
        with np.errstate(all='ignore'):
            body()
    except BaseException as ex:  # noqa
        emit('raised', type(ex).__module__ + '.' + type(ex).__name__, str(ex))
    emit('log', enc(list(LOGGED)))
    emit('rng', rng_state())


# ------------------------------------------------------------------ scenarios
def run_case(seed, hyper, objective, space_kw=None, store_best_only=False,
             hook=None, hook_given=True):
    def body():
        space = new_space(seed, **(space_kw or {}))
        opt = Tracing(hyperparams=hyper)
        f = function.Function(pointer=objective)
        try:
            if hook_given:
                hist = opt.run(space, f, store_best_only, hook)
            else:
                hist = opt.run(space, f, store_best_only=store_best_only)
            emit('returned', type(hist).__name__)
            dump_history(space, hist)
        finally:
            emit('trace', enc(opt.trace))
            dump_space(space)
    return body


HYPERS = [
    {},
    {'p_reproduction': 0.5, 'p_mutation': 0.5, 'p_crossover': 0.5, 'prunning_ratio': 0.0},
    {'p_reproduction': 1, 'p_mutation': 1, 'p_crossover': 1, 'prunning_ratio': 0.3},
    {'p_reproduction': 0, 'p_mutation': 0, 'p_crossover': 0, 'prunning_ratio': 1},
    {'p_reproduction': 0.3, 'p_mutation': 0.9, 'p_crossover': 0.2, 'prunning_ratio': 0.9},
]

for seed in (0, 1, 7, 2024):
    for hi, hyper in enumerate(HYPERS):
        for sbo in (False, True):
            scenario('run seed=%d hyper=%d sbo=%s' % (seed, hi, sbo),
                     run_case(seed, hyper, sphere, store_best_only=sbo,
                              hook_given=False))

# other objectives / spaces
scenario('shifted', run_case(3, HYPERS[1], shifted))
scenario('plateau ties', run_case(4, HYPERS[2], plateau))
scenario('array fitness', run_case(5, HYPERS[1], array_fit,
                                   space_kw=dict(n_variables=1, lower_bound=[0], upper_bound=[10])))
scenario('unary functions', run_case(
    6, HYPERS[2], sphere,
    space_kw=dict(functions=['EXP', 'LOG', 'SQRT', 'ABS', 'COS', 'SIN'], min_depth=2, max_depth=3)))
scenario('single tree', run_case(8, HYPERS[2], sphere, space_kw=dict(n_trees=1)))
scenario('two trees one terminal', run_case(
    9, HYPERS[2], sphere, space_kw=dict(n_trees=2, n_terminals=1, max_depth=1)))
scenario('one iteration', run_case(10, HYPERS[1], sphere, space_kw=dict(n_iterations=1)))
scenario('many trees', run_case(11, HYPERS[4], shifted,
                                space_kw=dict(n_trees=40, n_iterations=12, max_depth=5)))
scenario('nan every 3', run_case(12, HYPERS[1], make_nan_every(3)))
scenario('nan always', run_case(13, HYPERS[1], make_nan_every(1)))
scenario('array fitness, no operators', run_case(
    5, HYPERS[3], array_fit, space_kw=dict(n_variables=1, lower_bound=[0], upper_bound=[10])))
scenario('nan every 3, no operators', run_case(12, HYPERS[3], make_nan_every(3)))
scenario('nan every 2, no operators', run_case(12, HYPERS[3], make_nan_every(2), store_best_only=True))
scenario('nan always, no operators', run_case(13, HYPERS[3], make_nan_every(1)))
scenario('inf', run_case(14, HYPERS[1], lambda x: float('inf')))
scenario('-inf', run_case(15, HYPERS[1], lambda x: float('-inf')))

# exceptions coming out of the objective at various moments
scenario('raise first call', run_case(16, HYPERS[1], make_raise_at(1, ValueError)))
scenario('raise in initial evaluation', run_case(17, HYPERS[1], make_raise_at(5, KeyError)))
scenario('raise in iteration 2', run_case(18, HYPERS[1], make_raise_at(8 * 2 + 3, ZeroDivisionError)))
scenario('vector fitness', run_case(19, HYPERS[1], vector_fit))


# hooks
def make_hook(kind):
    calls = []

    def recording(opt, space, f):
        calls.append((type(opt).__name__, type(space).__name__, type(f).__name__,
                      rng_state()[:6], len(opt.trace)))
        opt.trace.append('H')

    def drawing(opt, space, f):
        opt.trace.append('H')
        # consumes the global stream, so ordering w.r.t. update/evaluate matters
        space.agents[0].position[0] = np.random.uniform(-1, 1)
        calls.append(rng_state()[:6])

    def shrinking(opt, space, f):
        opt.trace.append('H')
        # makes later iterations see other bounds / iteration count
        space.n_iterations = 2
        for a in space.agents:
            a.ub = a.ub * 0.5

    def failing(opt, space, f):
        opt.trace.append('H')
        calls.append(1)
        if len(calls) == 3:
            raise RuntimeError('hook failed')

    def returning(opt, space, f):
        opt.trace.append('H')
        return 'ignored'

    return {'recording': recording, 'drawing': drawing, 'shrinking': shrinking,
            'failing': failing, 'returning': returning}[kind], calls


for kind in ('recording', 'drawing', 'shrinking', 'failing', 'returning'):
    hk, calls = make_hook(kind)

    def body(hk=hk, calls=calls, kind=kind):
        try:
            run_case(20, HYPERS[1], sphere, hook=hk)()
        finally:
            emit('hook calls', enc(calls))
    scenario('hook ' + kind, body)


class FalsyCallable:
    """Callable, but falsy: the optimizer must not call it."""

    def __init__(self):
        self.n = 0

    def __bool__(self):
        return False

    def __call__(self, *a):
        self.n += 1


class BoolCounting:
    """Counts how often its truth value is asked for."""

    def __init__(self):
        self.bools = 0
        self.calls = 0

    def __bool__(self):
        self.bools += 1
        return True

    def __call__(self, opt, space, f):
        self.calls += 1
        opt.trace.append('H')


class BoolRaising:
    def __bool__(self):
        raise OverflowError('no truth value')

    def __call__(self, *a):
        pass


def falsy_body():
    fc = FalsyCallable()
    try:
        run_case(21, HYPERS[1], sphere, hook=fc)()
    finally:
        emit('falsy calls', fc.n)


def counting_body():
    bc = BoolCounting()
    try:
        run_case(22, HYPERS[1], sphere, hook=bc)()
    finally:
        emit('bools', bc.bools, 'calls', bc.calls)


scenario('hook falsy callable', falsy_body)
scenario('hook bool counting', counting_body)
scenario('hook bool raising', run_case(23, HYPERS[1], sphere, hook=BoolRaising()))
scenario('hook not callable', run_case(24, HYPERS[1], sphere, hook=1))
scenario('hook empty string', run_case(25, HYPERS[1], sphere, hook=''))
scenario('hook zero', run_case(26, HYPERS[1], sphere, hook=0))
scenario('hook wrong arity', run_case(27, HYPERS[1], sphere, hook=lambda a: None))
scenario('store_best_only truthy object', run_case(28, HYPERS[1], sphere, store_best_only='yes'))

# bad arguments to run
scenario('space None', lambda: emit('ret', enc(gp.GP().run(None, function.Function(pointer=sphere)))))
scenario('function None', lambda: emit('ret', enc(gp.GP().run(new_space(29), None))))
scenario('function plain callable', lambda: emit('ret', enc(gp.GP().run(new_space(30), sphere))))


# direct calls of _update and _evaluate on a plain GP
def direct_update():
    for seed in (31, 32, 33):
        for hyper in HYPERS:
            space = new_space(seed)
            opt = gp.GP(hyperparams=hyper)
            f = function.Function(pointer=shifted)
            emit('evaluate ->', enc(opt._evaluate(space, f)))
            dump_space(space)
            for _ in range(3):
                emit('update ->', enc(opt._update(space)))
                emit('rng', rng_state())
                dump_space(space)
                emit('evaluate ->', enc(opt._evaluate(space, f)))
                dump_space(space)


scenario('direct _update/_evaluate', direct_update)
scenario('_update None', lambda: gp.GP()._update(None))
scenario('_update object', lambda: gp.GP()._update(object()))
scenario('_evaluate None space', lambda: gp.GP()._evaluate(None, function.Function(pointer=sphere)))
scenario('_evaluate None function', lambda: gp.GP()._evaluate(new_space(34), None))


def evaluate_unfit_best():
    # best agent already at a very good fitness: nothing may be replaced
    space = new_space(35)
    space.best_agent.fit = -1.0
    before_tree = space.best_tree
    before_pos = space.best_agent.position
    gp.GP()._evaluate(space, function.Function(pointer=sphere))
    emit('kept', space.best_tree is before_tree, space.best_agent.position is before_pos)
    dump_space(space)


def evaluate_equal_best():
    # equal fitness must NOT replace the incumbent (strict `<`)
    space = new_space(36)
    opt = gp.GP()
    f = function.Function(pointer=lambda x: 3.0)
    opt._evaluate(space, f)
    t0, p0 = space.best_tree, space.best_agent.position
    opt._evaluate(space, f)
    emit('kept', space.best_tree is t0, space.best_agent.position is p0)
    dump_space(space)


def evaluate_mismatched_lengths():
    # zip stops at the shorter list
    space = new_space(37)
    space.trees = space.trees[:3]
    gp.GP()._evaluate(space, function.Function(pointer=sphere))
    dump_space(space)
    space = new_space(38)
    space.agents = space.agents[:2]
    gp.GP()._evaluate(space, function.Function(pointer=sphere))
    dump_space(space)


def evaluate_out_of_bounds():
    # trees whose position leaves the box are clipped on the agent only
    space = new_space(39, lower_bound=[-0.1, -0.1], upper_bound=[0.1, 0.1])
    gp.GP()._evaluate(space, function.Function(pointer=sphere))
    dump_space(space)


scenario('_evaluate incumbent better', evaluate_unfit_best)
scenario('_evaluate equal fitness', evaluate_equal_best)
scenario('_evaluate mismatched lengths', evaluate_mismatched_lengths)
scenario('_evaluate out of bounds', evaluate_out_of_bounds)


def two_runs_same_space():
    space = new_space(40)
    opt = Tracing(hyperparams=HYPERS[1])
    h1 = opt.run(space, function.Function(pointer=sphere))
    h2 = opt.run(space, function.Function(pointer=shifted), True)
    emit('distinct', h1 is not h2)
    dump_history(space, h1)
    dump_history(space, h2)
    emit('trace', enc(opt.trace))
    dump_space(space)


scenario('two runs same space', two_runs_same_space)

emit('signature', str(__import__('inspect').signature(gp.GP.run)),
     str(__import__('inspect').signature(gp.GP._update)),
     str(__import__('inspect').signature(gp.GP._evaluate)))

text = '\n'.join(OUT)
if '--dump' in sys.argv:
    print(text)
print('lines', len(OUT))
print(hashlib.sha256(text.encode()).hexdigest())
