"""Behaviour digest for the code touched by this change.

Run as: cd /tmp/harmless4/limits && PYTHONPATH=/tmp/harmless4/limits /venv/bin/python harmlessD/same.py
The LAST line printed is a sha256 digest that must be identical with and without the patch.
"""
import hashlib
import logging
import os
import sys
import warnings

import numpy as np

warnings.filterwarnings('ignore')

import opytimizer  # noqa: E402
from opytimizer import Opytimizer  # noqa: E402
from opytimizer.core.agent import Agent  # noqa: E402
from opytimizer.core.function import Function  # noqa: E402
from opytimizer.core.optimizer import Optimizer  # noqa: E402
from opytimizer.spaces.search import SearchSpace  # noqa: E402
from opytimizer.spaces.hyper import HyperSpace  # noqa: E402
from opytimizer.spaces.tree import TreeSpace  # noqa: E402

logging.disable(logging.CRITICAL)

_H = hashlib.sha256()
_N = [0]


def feed(x):
    """Feeds any (nested) result into the digest; floats go in as float.hex()."""
    _N[0] += 1
    if isinstance(x, BaseException):
        if os.environ.get('SAME_DEBUG'):
            print('exception:', type(x).__name__, x, file=sys.stderr)
        _H.update(('E:' + type(x).__name__ + ';').encode())
    elif isinstance(x, (bool, np.bool_)):
        _H.update(('b:%d;' % bool(x)).encode())
    elif isinstance(x, (int, np.integer)):
        _H.update(('i:%d;' % int(x)).encode())
    elif isinstance(x, (float, np.floating)):
        _H.update(('f:' + float(x).hex() + ';').encode())
    elif isinstance(x, str):
        _H.update(('s:' + x + ';').encode())
    elif x is None:
        _H.update(b'n;')
    elif isinstance(x, np.ndarray):
        _H.update(('a:%s:%s[' % (x.dtype.str, x.shape)).encode())
        for v in x.ravel().tolist():
            feed(v)
        _H.update(b'];')
    elif isinstance(x, (list, tuple)):
        _H.update(('l:%s:%d[' % (type(x).__name__, len(x))).encode())
        for v in x:
            feed(v)
        _H.update(b'];')
    elif isinstance(x, dict):
        _H.update(b'd[')
        for k in sorted(x):
            feed(k)
            feed(x[k])
        _H.update(b'];')
    else:
        _H.update(('o:' + type(x).__name__ + ';').encode())


def feed_rng():
    """Feeds the state of NumPy's global generator (detects extra / missing / reordered draws)."""
    st = np.random.get_state()
    feed(st[0])
    feed(hashlib.sha256(st[1].tobytes()).hexdigest())
    feed(int(st[2]))
    feed(int(st[3]))
    feed(float(st[4]))


def feed_agent(a):
    if not isinstance(a, Agent):
        feed(repr(a))
        return
    feed(type(a.position).__name__)
    if isinstance(a.position, np.ndarray) or a.position is None:
        feed(a.position)
    else:
        feed([np.asarray(r) for r in a.position])
    feed(a.fit)
    feed(a.lb)
    feed(a.ub)


def feed_space(s):
    for a in s.agents:
        feed_agent(a)
    feed_agent(s.best_agent)
    feed(s.lb)
    feed(s.ub)


def feed_history(h):
    for key in ('agents', 'best_agent', 'local'):
        if hasattr(h, key):
            feed(key)
            feed(getattr(h, key))


def attempt(fn, *args):
    """Calls fn, feeding either 'ok' plus its result or the exception type."""
    try:
        out = fn(*args)
    except Exception as exc:  # pylint: disable=broad-except
        feed(exc)
        return exc
    feed('ok')
    feed(out)
    return out


def sphere(x):
    return float(np.sum(np.asarray(x, dtype=float) ** 2))


def shifted(x):
    return float(np.sum((np.asarray(x, dtype=float) - 0.3) ** 2) + np.sum(np.abs(np.asarray(x, dtype=float))))


def run_task(seed, make_space, make_optimizer, objective, **start_kw):
    """A complete seeded optimization task; everything observable goes into the digest."""
    np.random.seed(seed)
    try:
        space = make_space()
        hist = Opytimizer(space=space, optimizer=make_optimizer(), function=Function(pointer=objective)).start(**start_kw)
    except Exception as exc:  # pylint: disable=broad-except
        feed(exc)
        feed_rng()
        return
    feed_history(hist)
    feed_space(space)
    feed_rng()


def finish():
    print('items fed:', _N[0])
    print(_H.hexdigest())

from opytimizer.optimizers.aiwpso import AIWPSO  # noqa: E402
from opytimizer.optimizers.ba import BA  # noqa: E402
from opytimizer.optimizers.fa import FA  # noqa: E402
from opytimizer.optimizers.gsa import GSA  # noqa: E402
from opytimizer.optimizers.hc import HC  # noqa: E402
from opytimizer.optimizers.hs import HS  # noqa: E402
from opytimizer.optimizers.sa import SA  # noqa: E402
from opytimizer.optimizers.sca import SCA  # noqa: E402

# which optimizers really inherit the generic _evaluate (part of the digest on purpose)
for opt in (AIWPSO, BA, FA, GSA, HC, HS, SA, SCA):
    feed(opt.__name__)
    feed(opt._evaluate is Optimizer._evaluate)


class Fn:
    """Stand-in for Function: `_evaluate` only uses `.pointer`; calls are recorded in order."""

    def __init__(self, f):
        self.calls = []
        self.f = f

    def pointer(self, x):
        self.calls.append(np.array(x, copy=True))
        return self.f(x)


def make_space(seed, n_agents=5, n_var=3):
    np.random.seed(seed)
    return SearchSpace(n_agents=n_agents, n_variables=n_var, n_iterations=2,
                       lower_bound=[-1.0] * n_var, upper_bound=[1.0] * n_var)


def evaluated(space, fn, times=1):
    """Runs the generic _evaluate and feeds outcome, call order, state and identities."""
    agents = list(space.agents)
    poss = [getattr(a, 'position', None) for a in agents]
    best = space.best_agent
    best_pos_before = best.position
    opt = Optimizer()
    for _ in range(times):
        attempt(opt._evaluate, space, fn)
    feed(len(fn.calls))
    feed(list(fn.calls))
    feed(space.best_agent is best)
    feed(best.position is best_pos_before)
    feed([getattr(a, 'position', None) is p for a, p in zip(agents, poss)])
    feed([best.position is getattr(a, 'position', None) for a in agents])
    feed([isinstance(a, Agent) and bool(np.shares_memory(best.position, a.position)) for a in agents])
    feed([best.fit is getattr(a, 'fit', None) for a in agents])
    feed([type(getattr(a, 'fit', None)).__name__ for a in agents])
    feed(type(best.fit).__name__)
    feed_space(space)
    feed_rng()


# 1. plain objectives, evaluated once and repeatedly (second pass: strict '<' means no update on equal fitness)
for seed in range(4):
    evaluated(make_space(seed), Fn(sphere))
    evaluated(make_space(seed, 8, 2), Fn(shifted), times=3)

# 2. ties: every agent has the same fitness -> only the first strictly better one is copied
evaluated(make_space(10), Fn(lambda x: 1.0))
s = make_space(11)
s.best_agent.fit = 1.0
marker = s.best_agent.position
evaluated(s, Fn(lambda x: 1.0))           # equal to the best: no update at all
feed(s.best_agent.position is marker)

# 3. NaN / inf fitness: comparisons with NaN are False, so NaN never becomes the best ...
vals = iter([np.nan, 3.0, np.nan, 2.0, np.inf])
evaluated(make_space(12), Fn(lambda x: next(vals)))
vals = iter([np.inf, -np.inf, np.nan, -np.inf, 0.0])
evaluated(make_space(13), Fn(lambda x: next(vals)))
# ... and a NaN best is never replaced
s = make_space(14)
s.best_agent.fit = np.nan
evaluated(s, Fn(sphere))
s = make_space(15)
s.best_agent.fit = -np.inf
evaluated(s, Fn(sphere))

# 4. fitness types: numpy scalars, ints, bools, size-1 arrays, 0-d arrays, strings vs float -> TypeError
evaluated(make_space(16), Fn(lambda x: np.float32(np.sum(x ** 2))))
evaluated(make_space(17), Fn(lambda x: int(np.sum(x) * 10)))
evaluated(make_space(18), Fn(lambda x: bool(np.sum(x) > 1.5)))
evaluated(make_space(19), Fn(lambda x: np.sum(x ** 2, axis=0)))          # shape (1,) array
evaluated(make_space(20), Fn(lambda x: np.asarray(np.sum(x ** 2))))      # 0-d array
evaluated(make_space(21), Fn(lambda x: x[0]))                            # a VIEW of the position as fitness
evaluated(make_space(22), Fn(lambda x: 'text'))                          # TypeError at the comparison
evaluated(make_space(23), Fn(lambda x: None))                            # TypeError at the comparison
evaluated(make_space(24), Fn(lambda x: x.ravel()))                       # ambiguous truth value -> ValueError
evaluated(make_space(25), Fn(lambda x: [float(np.sum(x))]))              # list vs float -> TypeError

# 5. an objective that fails half-way: earlier agents are evaluated and may already be the best
count = [0]


def failing(x):
    count[0] += 1
    if count[0] == 3:
        raise ZeroDivisionError('boom')
    return sphere(x)


evaluated(make_space(26), Fn(failing))

# 6. an objective that moves the agent in place (the best must hold a copy made AFTER the evaluation)
def moving(x):
    x *= 0.5
    return sphere(x)


evaluated(make_space(27), Fn(moving), times=2)

# 7. a comparison result with a custom truth value: bool() must be taken exactly once per agent
class Verdict:
    log = []

    def __init__(self, v):
        self.v = v

    def __bool__(self):
        Verdict.log.append(self.v)
        return self.v


class Fit:
    def __init__(self, v):
        self.v = v

    def __lt__(self, other):
        Verdict.log.append('lt')
        return Verdict(self.v < (other.v if isinstance(other, Fit) else other))

    def __deepcopy__(self, memo):
        Verdict.log.append('copy')
        return Fit(self.v)


s = make_space(28)
fn = Fn(lambda x: Fit(sphere(x)))
attempt(Optimizer()._evaluate, s, fn)
feed(list(Verdict.log))
feed([getattr(a.fit, 'v', a.fit) for a in s.agents])
feed(getattr(s.best_agent.fit, 'v', s.best_agent.fit))
feed([s.best_agent.fit is a.fit for a in s.agents])
feed(s.best_agent.position)

# 8. a space whose best_agent getter counts its reads (same number and order of reads)
class Counting(SearchSpace):
    reads = [0]

    @property
    def best_agent(self):
        Counting.reads[0] += 1
        return self._best_agent

    @best_agent.setter
    def best_agent(self, best_agent):
        self._best_agent = best_agent


np.random.seed(29)
c = Counting(n_agents=6, n_variables=2, n_iterations=2, lower_bound=[-1, -1], upper_bound=[1, 1])
Counting.reads[0] = 0
attempt(Optimizer()._evaluate, c, Fn(sphere))
feed(Counting.reads[0])
feed_space(c)

# 9. no agents, agents list with a non-agent, hyper and real Function wrapper
s = make_space(30)
s.agents = []
evaluated(s, Fn(sphere))
s = make_space(31)
s.agents[2] = 'not an agent'
evaluated(s, Fn(sphere))
np.random.seed(32)
hs = HyperSpace(n_agents=4, n_variables=2, n_dimensions=3, n_iterations=2, lower_bound=[-1, -1], upper_bound=[1, 1])
evaluated(hs, Fn(sphere))
s = make_space(33)
attempt(Optimizer()._evaluate, s, Function(pointer=shifted))
feed_space(s)

# 10. seeded optimizers that use the generic _evaluate
for seed in (0, 9):
    for opt in (AIWPSO, BA, FA, GSA, HC, HS, SA, SCA):
        run_task(seed, lambda: SearchSpace(n_agents=6, n_variables=3, n_iterations=10,
                                           lower_bound=[-1, -0.5, 0], upper_bound=[1, 0.5, 0.1]), opt, shifted)
    run_task(seed, lambda: SearchSpace(n_agents=4, n_variables=2, n_iterations=6, lower_bound=[-10, -10],
                                       upper_bound=[10, 10]), HC, sphere, store_best_only=True)

finish()
