"""Exercises GSA._update and its helpers (_calculate_mass/_calculate_force/_update_velocity/_update_position) on seeded inputs; last line is a digest."""
import hashlib
import logging

import numpy as np

logging.disable(logging.CRITICAL)

from opytimizer.core.function import Function
from opytimizer.optimizers.gsa import GSA
from opytimizer.spaces.search import SearchSpace

H = hashlib.sha256()


def feed(x):
    if isinstance(x, np.ndarray):
        H.update(('A' + str(x.shape) + str(x.dtype)).encode())
        for v in x.ravel().tolist():
            feed(v)
    elif isinstance(x, (float, np.floating)):
        H.update(('F' + float(x).hex()).encode())
    elif isinstance(x, (list, tuple)):
        H.update(('L%d' % len(x)).encode())
        for v in x:
            feed(v)
    else:
        H.update(('O' + repr(x)).encode())


def feed_rng():
    st = np.random.get_state()
    H.update(st[1].tobytes())
    H.update(str(st[2:]).encode())


def sphere(x):
    return np.sum(x ** 2)


def shifted(x):
    return float(np.sum(np.abs(x - 0.3)) + np.prod(np.cos(x)))


def nan_fn(x):
    return float('nan')


def boom(x):
    raise ZeroDivisionError('boom')


def snapshot(space):
    for a in space.agents:
        feed(a.position)
        feed(a.fit)
    feed(space.best_agent.position)
    feed(space.best_agent.fit)


def make(seed, n_agents, n_variables, lb, ub):
    np.random.seed(seed)
    return SearchSpace(n_agents=n_agents, n_variables=n_variables, n_iterations=5,
                       lower_bound=lb, upper_bound=ub)


# 1) direct _update calls
for seed in (0, 1, 7, 123):
    for G in (0, 2.467, 10):
        for n_agents, n_vars in ((1, 1), (2, 3), (6, 2)):
            for fn in (sphere, shifted):
                space = make(seed, n_agents, n_vars, [-5.0] * n_vars, [5.0] * n_vars)
                opt = GSA(hyperparams={'G': G})
                f = Function(pointer=fn)
                opt._evaluate(space, f)
                velocity = np.zeros((n_agents, n_vars, 1))
                vid = id(velocity)
                for t in range(4):
                    out = opt._update(space.agents, f, velocity, t)
                    feed(out)
                    feed(velocity)
                    space.check_limits()
                    opt._evaluate(space, f)
                    snapshot(space)
                    feed_rng()
                feed(vid == id(velocity))

# 2) helpers directly
for seed in (2, 19):
    for n_agents, n_vars in ((1, 2), (3, 1), (4, 3)):
        space = make(seed, n_agents, n_vars, [-3.0] * n_vars, [4.0] * n_vars)
        opt = GSA()
        opt._evaluate(space, Function(pointer=shifted))
        space.agents.sort(key=lambda x: x.fit)
        mass = opt._calculate_mass(space.agents)
        feed(mass)
        for gravity in (0.0, 1.25, 2.467):
            force = opt._calculate_force(space.agents, mass, gravity)
            feed(force)
            feed_rng()
        # coincident agents (zero distance) and identical fitness
        space.agents[-1].position = space.agents[0].position.copy()
        force = opt._calculate_force(space.agents, mass, 1.0)
        feed(force)
        v = opt._update_velocity(force[0], mass[0], np.ones((n_vars, 1)))
        feed(v)
        feed(opt._update_position(space.agents[0].position, v))
        feed_rng()
        # mass given as a plain list, and integer gravity
        feed(opt._calculate_force(space.agents, list(mass), 2))
        feed_rng()

# 3) full seeded runs
for seed in (3, 11):
    for G in (0.5, 2.467):
        space = make(seed, 5, 2, [-10, -2], [10, 2])
        opt = GSA(hyperparams={'G': G})
        hist = opt.run(space, Function(pointer=sphere))
        snapshot(space)
        feed_rng()
        for it in hist.best_agent:
            feed(it[0])
            feed(it[1])

# 4) edge cases and exceptions
space = make(9, 3, 2, [0, 0], [1, 1])
GSA()._evaluate(space, Function(pointer=sphere))
good_mass = GSA()._calculate_mass(space.agents)
cases = []
cases.append(('force: empty agents', lambda: GSA()._calculate_force([], np.array([]), 1.0)))
cases.append(('force: short mass', lambda: GSA()._calculate_force(space.agents, good_mass[:2], 1.0)))
cases.append(('force: mass None', lambda: GSA()._calculate_force(space.agents, None, 1.0)))
cases.append(('force: gravity None', lambda: GSA()._calculate_force(space.agents, good_mass, None)))
cases.append(('force: agents None', lambda: GSA()._calculate_force(None, good_mass, 1.0)))
cases.append(('force: agents of ints', lambda: GSA()._calculate_force([1, 2, 3], good_mass, 1.0)))
cases.append(('mass: empty', lambda: GSA()._calculate_mass([])))
cases.append(('update: empty agents', lambda: GSA()._update([], None, np.zeros((0, 1, 1)), 0)))
cases.append(('update: short velocity', lambda: GSA()._update(space.agents, None, np.zeros((2, 2, 1)), 0)))
cases.append(('update: iteration -1', lambda: GSA()._update(space.agents, None, np.zeros((3, 2, 1)), -1)))
cases.append(('update: velocity None', lambda: GSA()._update(space.agents, None, None, 0)))
for name, thunk in cases:
    np.random.seed(17)
    try:
        feed(thunk())
        feed(name + ': ok')
    except Exception as ex:  # noqa
        feed(name + ': ' + type(ex).__name__)
    feed_rng()
    snapshot(space)

print(H.hexdigest())
