"""Digest of spaces built through Space._create_agents and of seeded runs on them.

Run: cd /tmp/harmless/C07 && PYTHONPATH=/tmp/harmless/C07 /venv/bin/python harmlessB/same.py
"""
import hashlib
import logging

import numpy as np

logging.disable(logging.CRITICAL)

from opytimizer.core.function import Function
from opytimizer.core.space import Space
from opytimizer.optimizers.gp import GP
from opytimizer.optimizers.hc import HC
from opytimizer.optimizers.hs import HS
from opytimizer.optimizers.pso import PSO
from opytimizer.spaces.hyper import HyperSpace
from opytimizer.spaces.search import SearchSpace
from opytimizer.spaces.tree import TreeSpace

H = hashlib.sha256()


def put(*xs):
    for x in xs:
        if isinstance(x, np.ndarray):
            H.update(repr(x.shape).encode())
            for v in x.ravel().tolist():
                H.update(float(v).hex().encode())
        elif isinstance(x, (float, np.floating)):
            H.update(float(x).hex().encode())
        elif isinstance(x, (list, tuple)):
            H.update(b'[')
            put(*x)
            H.update(b']')
        else:
            H.update(repr(x).encode())
        H.update(b'|')


def sphere(x):
    return float(np.sum(x ** 2))


def aliasing(space):
    arrs = [a.position for a in space.agents] + [space.best_agent.position]
    ids = [id(a) for a in space.agents] + [id(space.best_agent)]
    out = [len(set(ids)) == len(ids)]
    for i in range(len(arrs)):
        for j in range(i + 1, len(arrs)):
            out.append(bool(np.shares_memory(arrs[i], arrs[j])))
    # lb / ub arrays of the agents are checked as well
    for name in ('lb', 'ub'):
        bs = [getattr(a, name) for a in space.agents] + [getattr(space.best_agent, name)]
        for i in range(len(bs)):
            for j in range(i + 1, len(bs)):
                out.append(bool(np.shares_memory(bs[i], bs[j])))
    return out


def state(space):
    put(type(space.agents).__name__, len(space.agents))
    for a in space.agents:
        put(type(a).__name__, a.n_variables, a.n_dimensions, a.position, a.fit, a.lb, a.ub)
    b = space.best_agent
    put(type(b).__name__, b.n_variables, b.n_dimensions, b.position, b.fit, b.lb, b.ub)
    put(aliasing(space))


# 1. the bare method on the base class, including error inputs
for kw in (dict(), dict(n_agents=1, n_variables=1, n_dimensions=1), dict(n_agents=5, n_variables=3, n_dimensions=4),
           dict(n_agents=2, n_variables=7, n_dimensions=1), dict(n_agents=0), dict(n_agents=-3),
           dict(n_agents=2.0), dict(n_variables=0), dict(n_dimensions='2')):
    np.random.seed(11)
    put(sorted(kw.items()))
    try:
        s = Space(**kw)
        agents, best = s._create_agents()
        put(type(agents).__name__, len(agents), s.agents, type(s.best_agent).__name__)
        s.agents, s.best_agent = agents, best
        state(s)
        # the first agent is the template of the best one, but not the same storage
        agents[0].position += 2.5
        put(best.position, agents[-1].position)
        # attributes tampered with after construction are honoured the same way
        s._n_agents = 3
        s._n_variables = 2
        a2, b2 = s._create_agents()
        put(len(a2), a2[0].position, b2.position)
    except Exception as ex:
        put(type(ex).__name__, str(ex))
    put(np.random.uniform())

# 2. concrete spaces and short seeded runs
CONFIGS = [
    (SearchSpace, dict(n_agents=1, n_variables=1, n_iterations=2, lower_bound=[-1.0], upper_bound=[1.0])),
    (SearchSpace, dict(n_agents=6, n_variables=3, n_iterations=3, lower_bound=[-5.0, 0.0, 1.0], upper_bound=[5.0, 0.0, 2.0])),
    (SearchSpace, dict(n_agents=3, n_variables=2, n_iterations=3, lower_bound=[0.0], upper_bound=[1.0, 1.0])),
    (HyperSpace, dict(n_agents=4, n_variables=2, n_dimensions=4, n_iterations=3, lower_bound=[-2.0, -1.0], upper_bound=[2.0, 1.0])),
    (HyperSpace, dict(n_agents=1, n_variables=1, n_dimensions=1, n_iterations=1, lower_bound=[0.0], upper_bound=[1.0])),
]
for ci, (cls, kw) in enumerate(CONFIGS):
    for oi, opt_cls in enumerate((HC, HS, PSO)):
        np.random.seed(100 * ci + oi)
        put(cls.__name__, ci, opt_cls.__name__)
        try:
            space = cls(**kw)
            state(space)
            if cls is SearchSpace:
                hist = opt_cls().run(space, Function(pointer=sphere), pre_evaluation_hook=lambda o, s, f: state(s))
                put(hist.agents, hist.best_agent)
                state(space)
        except Exception as ex:
            put(type(ex).__name__, str(ex))
        put(np.random.uniform())

# 3. tree space goes through the same builder
for seed in (0, 1):
    np.random.seed(seed)
    try:
        space = TreeSpace(n_trees=4, n_terminals=3, n_variables=2, n_iterations=2, min_depth=1, max_depth=3,
                          functions=['SUM', 'MUL'], lower_bound=[-1.0, -1.0], upper_bound=[1.0, 1.0])
        state(space)
        put([str(t) for t in space.trees])
        hist = GP().run(space, Function(pointer=sphere))
        put(hist.best_agent)
        state(space)
    except Exception as ex:
        put(type(ex).__name__, str(ex))
    put(np.random.uniform())

print(H.hexdigest())
