"""Digest of generate_levy_distribution behaviour on seeded inputs."""
import hashlib
import pickle
import warnings

import numpy as np

import opytimizer.math.distribution as d

warnings.simplefilter('ignore')
H = hashlib.sha256()


def put(*items):
    for it in items:
        H.update(repr(it).encode())
        H.update(b'|')


def rng_state():
    s = np.random.get_state()
    return hashlib.sha256(pickle.dumps((s[0], s[1].tobytes(), s[2], s[3], s[4]))).hexdigest()


def hexes(a):
    a = np.asarray(a)
    if np.iscomplexobj(a):
        return [(float(x.real).hex(), float(x.imag).hex()) for x in a.ravel()]
    return [float(x).hex() for x in a.ravel()]


def run(tag, seed, *args, **kwargs):
    np.random.seed(seed)
    try:
        out = d.generate_levy_distribution(*args, **kwargs)
        put(tag, 'ok', type(out).__name__, str(out.dtype), out.shape, hexes(out))
    except Exception as e:  # noqa
        put(tag, 'exc', type(e).__name__, str(e))
    put(rng_state())


betas = (0.1, 0.3, 0.5, 1.0, 1.5, 1.99, 2.0, 0.01, 1e-3, 2.5, 3.0, 4.0, 5.0, 7.3, 1, 2, 3,
         np.float64(1.5), np.float64(3.0), np.float32(0.7), np.int64(1))
for seed in range(6):
    for beta in betas:
        for size in (1, 3, 17):
            run('grid', seed, beta, size)

run('default', 1)
run('kw', 2, beta=1.2, size=4)
run('size0', 3, 1.5, 0)
run('sizeneg', 3, 1.5, -1)
run('sizenone', 3, 1.5, None)
run('sizetuple', 3, 1.5, (2, 3))
run('sizefloat', 3, 1.5, 2.0)
run('beta0', 4, 0, 3)
run('beta0f', 4, 0.0, 3)
run('betaneg0', 4, -0.0, 3)
run('betanp0', 4, np.float64(0.0), 3)
run('betaneg', 4, -0.5, 3)
run('betam1', 4, -1, 3)
run('betam1f', 4, -1.0, 3)
run('betam2', 4, -2.0, 3)
run('betam3', 4, -3.0, 3)
run('betanan', 4, float('nan'), 3)
run('betainf', 4, float('inf'), 3)
run('betaninf', 4, float('-inf'), 3)
run('betabig', 4, 170.0, 3)
run('betahuge', 4, 200.0, 3)
run('betatiny', 4, 1e-300, 3)
run('betasub', 4, 5e-324, 3)
run('betastr', 4, '1.5', 3)
run('betanone', 4, None, 3)
run('betaarr', 4, np.array([1.5]), 3)
run('betaarr2', 4, np.array([1.5, 0.5]), 3)
run('betacomplex', 4, 1.5 + 0j, 3)
run('betabool', 4, True, 3)
from fractions import Fraction
run('betafrac', 4, Fraction(3, 2), 3)

# consecutive calls share the stream
np.random.seed(9)
a = d.generate_levy_distribution(1.5, 4)
b = d.generate_levy_distribution(0.5, 4)
put('seq', hexes(a), hexes(b), rng_state())

print(H.hexdigest())
