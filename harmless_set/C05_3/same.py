"""Digest of generate_levy_distribution over seeded inputs and edge cases."""
import hashlib
import warnings
from fractions import Fraction

import numpy as np

import opytimizer.math.distribution as d

warnings.simplefilter('ignore')
h = hashlib.sha256()


def feed(tag, value):
    h.update(repr(tag).encode())
    if isinstance(value, BaseException):
        h.update(('EXC:' + type(value).__name__ + ':' + str(value)).encode())
        return
    arr = np.asarray(value)
    h.update((type(value).__name__ + str(arr.dtype) + repr(arr.shape)).encode())
    for x in arr.ravel():
        z = complex(x)
        h.update((z.real.hex() + z.imag.hex()).encode())


def state_word():
    # One further draw: proves the random stream was consumed identically
    return float(np.random.uniform())


betas = [0.1, 0.5, 1.0, 1.5, 1.99, 2.0, 3, 1, 0.001, 1e-8, -0.5, -1.5,
         np.float64(1.5), np.float32(0.7), np.float64(0.0), Fraction(3, 2),
         0, 0.0, -1, -1.0, -3, float('nan'), float('inf'), -float('inf'),
         True, False, 'a', None, 1 + 2j, np.array([1.5]), np.array([1.5, 0.5])]
sizes = [1, 5, 0, (2, 3), None, -1, 2.0, (0,)]

for seed in (0, 1, 12345):
    for beta in betas:
        for size in sizes:
            np.random.seed(seed)
            try:
                out = d.generate_levy_distribution(beta, size)
            except BaseException as e:  # noqa
                out = e
            feed((seed, repr(beta), repr(size)), out)
            feed('state', state_word())

np.random.seed(7)
feed('default', d.generate_levy_distribution())
feed('kw', d.generate_levy_distribution(size=4, beta=1.3))
feed('state', state_word())

print(h.hexdigest())
