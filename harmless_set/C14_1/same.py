"""Digest of PSO setter / constructor outcomes and of seeded PSO runs."""
import hashlib
import logging
from fractions import Fraction
from decimal import Decimal

import numpy as np

logging.disable(logging.CRITICAL)

from opytimizer.core.function import Function
from opytimizer.optimizers.pso import PSO
from opytimizer.spaces.search import SearchSpace

out = []


def show(v):
    if isinstance(v, float):
        return 'float:' + v.hex()
    if isinstance(v, np.ndarray):
        return 'nd:' + str(v.dtype) + ':' + ','.join(float(x).hex() for x in v.ravel())
    if callable(v) or type(v) is object:
        return type(v).__name__ + ':' + getattr(v, '__name__', '?')
    return type(v).__name__ + ':' + repr(v)


class MyFloat(float):
    pass


class MyInt(int):
    pass


PROBES = [
    0, 1, -1, 2, 10 ** 30, -10 ** 30, True, False,
    0.0, -0.0, 1.0, -1.0, 0.5, 5e-324, -5e-324, 1.7, 1e308, -1e308,
    float('inf'), float('-inf'), float('nan'),
    np.nextafter(0.0, -1.0).item(), np.nextafter(0.0, 1.0).item(),
    MyFloat(0.3), MyFloat(-0.3), MyInt(3), MyInt(-3),
    np.float64(0.25), np.float64(-0.25), np.float64('nan'), np.float32(0.25), np.float32(-0.25),
    np.int64(1), np.int64(-1), np.int32(0), np.bool_(True), np.uint8(3),
    None, 'a', '1', b'1', [], [1.0], (1.0,), {}, {'w': 1}, 1 + 0j, -1j,
    Fraction(1, 2), Fraction(-1, 2), Decimal('0.5'), Decimal('-0.5'),
    np.array(0.5), np.array([0.5]), np.array([0.5, -0.5]), np.array(1), np.array([-1]),
    float, int, len, lambda x: x, object(),
]

for name in ('w', 'c1', 'c2'):
    for k, v in enumerate(PROBES):
        # through the setter, after a known previous value
        p = PSO()
        setattr(p, name, 0.125)
        try:
            setattr(p, name, v)
            got = getattr(p, name)
            out.append(f'set {name} {k} ok {show(got)} same={got is v}')
        except BaseException as ex:
            prev = getattr(p, name)
            out.append(f'set {name} {k} {type(ex).__module__}.{type(ex).__name__} {ex.args!r} prev={show(prev)}')
        # through the constructor's hyperparameter dictionary
        try:
            p = PSO(hyperparams={name: v})
            got = getattr(p, name)
            out.append(f'ctor {name} {k} ok {show(got)} same={got is v} hp={p.hyperparams is not None} built={p.built}')
        except BaseException as ex:
            out.append(f'ctor {name} {k} {type(ex).__module__}.{type(ex).__name__} {ex.args!r}')

# several hyperparameters at once (the first failing one decides)
for hp in ({'w': -1, 'c1': 'x'}, {'w': 'x', 'c1': -1}, {'c2': -1, 'w': 0.3}, {'w': 0, 'c1': 0, 'c2': 0},
           {'w': 0.4, 'c1': 2, 'c2': 2.5, 'other': None}, {}):
    try:
        p = PSO(hyperparams=hp)
        out.append(f'multi ok {show(p.w)} {show(p.c1)} {show(p.c2)} {p.hyperparams is hp}')
    except BaseException as ex:
        out.append(f'multi {type(ex).__name__} {ex.args!r}')


def sphere(x):
    return float(np.sum(x ** 2))


def shifted(x):
    return float(np.sum(np.abs(x - 0.3)) + np.prod(np.cos(x)))


for seed, fn, hp, na, nv, it in [
    (0, sphere, {}, 5, 2, 10),
    (1, sphere, {'w': 0, 'c1': 0, 'c2': 0}, 3, 1, 5),
    (2, shifted, {'w': 0.4, 'c1': 2, 'c2': 2.5}, 7, 3, 12),
    (3, shifted, {'w': 1, 'c1': True, 'c2': MyFloat(1.5)}, 4, 4, 8),
    (4, sphere, {'w': float('inf')}, 2, 2, 3),
    (5, sphere, {'w': float('nan'), 'c1': 1e308}, 2, 2, 3),
]:
    np.random.seed(seed)
    space = SearchSpace(n_agents=na, n_iterations=it, n_variables=nv,
                        lower_bound=[-5.0] * nv, upper_bound=[5.0] * nv)
    with np.errstate(all='ignore'):
        hist = PSO(hyperparams=hp).run(space, Function(pointer=fn))
    out.append(f'run {seed} best {show(space.best_agent.position)} {show(float(space.best_agent.fit))}')
    for a in space.agents:
        out.append(f'run {seed} agent {show(a.position)} {show(float(a.fit))}')
    out.append(f'run {seed} next {np.random.uniform().hex()}')

print(len(out), hashlib.sha256('\n'.join(out).encode()).hexdigest())
