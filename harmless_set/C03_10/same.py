"""Exercises Opytimizer (constructor, setters, start) and SA (setters, _update, run)
on seeded inputs and edge cases; prints a sha256 digest as the last line."""
import hashlib
import logging
import math
import re

import numpy as np

import opytimizer
import opytimizer.utils.exception as ex
from opytimizer.core import function
from opytimizer.core.agent import Agent
from opytimizer.optimizers import pso, sa
from opytimizer.spaces import search

# Silence the console handlers and capture the log messages instead
CAPTURED = []


class Capture(logging.Handler):
    def emit(self, record):
        msg = record.getMessage()
        # the elapsed time is the only non-deterministic message
        if msg.startswith('It took'):
            msg = 'It took <t> seconds.'
        msg = re.sub(r' at 0x[0-9a-f]+', ' at 0x?', msg)
        CAPTURED.append(f'{record.name}|{record.levelname}|{msg}')


for name, lg in list(logging.root.manager.loggerDict.items()):
    if name.startswith('opytimizer') and isinstance(lg, logging.Logger):
        for hd in list(lg.handlers):
            lg.removeHandler(hd)
            hd.close()
        lg.addHandler(Capture())

OUT = []


def enc(x):
    if isinstance(x, (bool, np.bool_)):
        return f'b{bool(x)}'
    if isinstance(x, (int, np.integer)):
        return f'i{int(x)}:{type(x).__name__}'
    if isinstance(x, (float, np.floating)):
        return f'f{float(x).hex()}:{type(x).__name__}'
    if isinstance(x, np.ndarray):
        return f'a{x.dtype}{x.shape}[' + ','.join(enc(v) for v in x.ravel().tolist()) + ']'
    if isinstance(x, (list, tuple)):
        return type(x).__name__ + '(' + ','.join(enc(v) for v in x) + ')'
    if x is None:
        return 'None'
    return re.sub(r' at 0x[0-9a-f]+', ' at 0x?', repr(x))


def rec(tag, *vals):
    OUT.append(tag + '=' + ';'.join(enc(v) for v in vals))


def attempt(tag, thunk):
    try:
        v = thunk()
        rec(tag, 'ok', v)
        return v
    except BaseException as exc:  # noqa
        rec(tag, 'exc', type(exc).__module__ + '.' + type(exc).__name__, str(exc))
        return None


def sphere(x):
    return np.sum(x ** 2)


def shifted(x):
    return float(np.sum((x - 0.3) ** 2))


def nan_obj(x):
    s = float(np.sum(x))
    return float('nan') if s > 1.0 else s


def array_obj(x):
    # array-valued fitness of one element
    return np.sum(x ** 2, axis=0)


def neg_inf_obj(x):
    return -math.inf if float(np.sum(x)) < 0.5 else float(np.sum(x))


def stream_probe():
    # position of the global random stream after the exercised code
    return np.random.uniform(0, 1, 3)


# ----------------------------------------------------------------- SA setters
def setters():
    for v in [100, 0, 0.0, 1.5, -1, -0.5, True, False, 'a', None, [1], (1,), 1 + 0j,
              np.float64(2.5), np.float32(2.5), np.int64(3), float('nan'), float('inf'),
              -float('inf'), np.array(1.0), np.array([1.0]), np.array([1.0, 2.0]), -0.0]:
        for attr in ('T', 'beta'):
            s = sa.SA()

            def go(s=s, attr=attr, v=v):
                setattr(s, attr, v)
                got = getattr(s, attr)
                return (got, got is v)
            attempt(f'set.{attr}.{v!r}', go)
            rec(f'after.{attr}.{v!r}', s.T, s.beta)

    for hp in [{}, {'T': 5}, {'beta': 0.5}, {'T': 1.0, 'beta': 1}, {'T': -1}, {'beta': 'x'},
               {'T': 'x', 'beta': -3}, {'other': 1}, None, 3]:
        def go(hp=hp):
            s = sa.SA(hyperparams=hp)
            return (s.T, s.beta, s.built, s.hyperparams is hp, s.algorithm)
        attempt(f'hp.{hp!r}', go)


# ----------------------------------------------------------------- SA._update
def make_agents(seed, n_agents, n_var, n_dim, lo, hi, fits=None):
    rng = np.random.RandomState(seed)
    agents = []
    for k in range(n_agents):
        a = Agent(n_variables=n_var, n_dimensions=n_dim)
        a.position = rng.uniform(lo, hi, (n_var, n_dim))
        for j in range(n_var):
            a.lb[j] = lo
            a.ub[j] = hi
        agents.append(a)
    return agents


def updates():
    cases = [
        ('sphere', sphere, 100, 0.999), ('sphere_cold', sphere, 1e-3, 0.5), ('shifted', shifted, 1.0, 0.9),
        ('nan', nan_obj, 10, 0.99), ('array', array_obj, 2.0, 0.75), ('neginf', neg_inf_obj, 3, 1),
        ('zeroT_pyfloat', shifted, 0, 0.9), ('zeroT_np', sphere, 0, 0.9), ('infT', sphere, float('inf'), 0.5),
        ('beta0', sphere, 5, 0),
    ]
    for name, obj, T, beta in cases:
        for seed, (n_agents, n_var, n_dim) in enumerate([(1, 1, 1), (4, 2, 1), (3, 3, 2), (0, 1, 1)]):
            f = function.Function(pointer=obj)
            s = sa.SA(hyperparams={'T': T, 'beta': beta})
            agents = make_agents(seed + 11, n_agents, n_var, n_dim, -1.0, 2.0)
            pos_ids = [id(a.position) for a in agents]
            # initial fitness: some evaluated, some left at the default, one NaN
            for k, a in enumerate(agents):
                if k % 3 == 0:
                    a.fit = obj(a.position)
                elif k % 3 == 2:
                    a.fit = float('nan')
            np.random.seed(1000 + seed)
            tag = f'upd.{name}.{seed}'

            def go():
                res = []
                with np.errstate(all='ignore'):
                    for step in range(3):
                        ret = s._update(agents, f)
                        res.append(ret)
                        res.append(s.T)
                        for a in agents:
                            res.append(a.position)
                            res.append(a.fit)
                return res
            attempt(tag, go)
            rec(tag + '.T', s.T, s.beta)
            rec(tag + '.alias', [id(a.position) == i for a, i in zip(agents, pos_ids)])
            rec(tag + '.stream', stream_probe())

    # agents given as a tuple and as a generator; function raising in the middle
    f = function.Function(pointer=sphere)
    for kind in ('tuple', 'gen', 'dict'):
        s = sa.SA(hyperparams={'T': 1.0, 'beta': 0.5})
        agents = make_agents(5, 3, 2, 1, 0.0, 1.0)
        np.random.seed(77)
        arg = {'tuple': tuple(agents), 'gen': (a for a in agents), 'dict': {a: 1 for a in agents}}[kind]
        attempt(f'upd.iter.{kind}', lambda: s._update(arg, f))
        rec(f'upd.iter.{kind}.state', s.T, [a.position for a in agents], [a.fit for a in agents], stream_probe())

    calls = []

    def boom(x):
        calls.append(1)
        if len(calls) == 2:
            raise KeyError('boom')
        return float(np.sum(x))
    fb = function.Function(pointer=boom)
    s = sa.SA(hyperparams={'T': 1.0, 'beta': 0.5})
    agents = make_agents(6, 3, 2, 1, 0.0, 1.0)
    np.random.seed(78)
    attempt('upd.boom', lambda: s._update(agents, fb))
    rec('upd.boom.state', s.T, [a.position for a in agents], [a.fit for a in agents], len(calls), stream_probe())

    # wrong argument kinds
    s = sa.SA()
    attempt('upd.none', lambda: s._update(None, f))
    attempt('upd.badfn', lambda: s._update(make_agents(1, 1, 1, 1, 0, 1), None))
    rec('upd.bad.T', s.T)


# --------------------------------------------------------------------- SA.run
def hist(h):
    res = []
    for k in sorted(vars(h)):
        if k == 'time':
            res.append(('time', len(h.time)))
        else:
            res.append((k, getattr(h, k)))
    return res


def runs():
    hook_log = []

    def hook(opt, space, fn):
        hook_log.append((opt.T, space.best_agent.fit, [a.fit for a in space.agents]))

    def shrink_hook(opt, space, fn):
        hook_log.append(space.n_iterations)
        if len(hook_log) == 2:
            space.n_iterations = 2

    for seed, (obj, n_agents, n_var, n_it, T, beta, hk, sbo) in enumerate([
        (sphere, 5, 2, 20, 100, 0.99, None, False),
        (shifted, 3, 3, 15, 1.0, 0.9, hook, False),
        (sphere, 1, 1, 0, 10, 0.5, hook, False),
        (sphere, 2, 1, 1, 10, 0.5, None, True),
        (nan_obj, 4, 2, 10, 5, 0.8, hook, True),
        (array_obj, 3, 2, 6, 2.0, 0.7, None, False),
        (sphere, 3, 2, 6, 2.0, 0.7, shrink_hook, False),
        (shifted, 3, 2, 5, 0, 0.7, None, False),
    ]):
        del hook_log[:]
        np.random.seed(4242 + seed)
        space = search.SearchSpace(n_agents=n_agents, n_variables=n_var, n_iterations=max(n_it, 1),
                                   lower_bound=[-1.0] * n_var, upper_bound=[1.5] * n_var)
        if n_it == 0:
            # the setter refuses 0; an empty loop is still worth exercising
            space._n_iterations = 0
        f = function.Function(pointer=obj)
        s = sa.SA(hyperparams={'T': T, 'beta': beta})
        tag = f'run.{seed}'
        agents_before = list(space.agents)
        best_before = space.best_agent

        def go():
            with np.errstate(all='ignore'):
                h = s.run(space, f, sbo, hk)
            return hist(h)
        attempt(tag, go)
        rec(tag + '.state', s.T, [a.position for a in space.agents], [a.fit for a in space.agents],
            space.best_agent.position, space.best_agent.fit, space.n_iterations)
        rec(tag + '.ident', [a is b for a, b in zip(space.agents, agents_before)], space.best_agent is best_before)
        rec(tag + '.hook', list(hook_log))
        rec(tag + '.stream', stream_probe())
        # positional / keyword forms, second run on the same space
        np.random.seed(99 + seed)
        attempt(tag + '.again', lambda: hist(s.run(space=space, function=f, pre_evaluation_hook=hk,
                                                   store_best_only=sbo)) if T else None)
        rec(tag + '.again.T', s.T, stream_probe())

    # hook that raises, non-callable hook, bad space
    np.random.seed(5)
    space = search.SearchSpace(n_agents=2, n_variables=1, n_iterations=3, lower_bound=[0], upper_bound=[1])
    f = function.Function(pointer=sphere)
    s = sa.SA()

    def bad_hook(o, sp, fn):
        raise RuntimeError('hook')
    attempt('run.badhook', lambda: s.run(space, f, pre_evaluation_hook=bad_hook))
    attempt('run.noncallable', lambda: s.run(space, f, pre_evaluation_hook=3))
    attempt('run.falsy_hook', lambda: hist(s.run(space, f, pre_evaluation_hook=0)))
    attempt('run.nospace', lambda: s.run(None, f))
    attempt('run.nofn', lambda: s.run(space, None))
    rec('run.bad.state', s.T, [a.position for a in space.agents], stream_probe())


# ----------------------------------------------------------------- Opytimizer
class Fake:
    def __init__(self, built):
        self.built = built


class NoBuilt:
    pass


def opyt():
    np.random.seed(31337)
    space = search.SearchSpace(n_agents=3, n_variables=2, n_iterations=4, lower_bound=[0, 0], upper_bound=[1, 1])
    f = function.Function(pointer=sphere)
    s = sa.SA(hyperparams={'T': 3.0, 'beta': 0.9})
    p = pso.PSO()

    o = opytimizer.Opytimizer(space=space, optimizer=s, function=f)
    rec('opy.ident', o.space is space, o.optimizer is s, o.function is f,
        o._space is space, o._optimizer is s, o._function is f, sorted(vars(o)))

    # constructor failures, in every position, and which attributes exist afterwards
    combos = {
        'none_all': (None, None, None), 'default': (),
        'space_unbuilt': (Fake(False), s, f), 'opt_unbuilt': (space, Fake(False), f),
        'fn_unbuilt': (space, s, Fake(False)), 'all_unbuilt': (Fake(False), Fake(False), Fake(False)),
        'space_nobuilt': (NoBuilt(), s, f), 'opt_nobuilt': (space, NoBuilt(), f), 'fn_nobuilt': (space, s, NoBuilt()),
        'fakes_ok': (Fake(True), Fake(1), Fake('yes')), 'falsy_built': (Fake(0), s, f),
        'empty_built': (space, Fake([]), f), 'none_built': (space, s, Fake(None)),
        'np_built': (Fake(np.array([1, 2])), s, f),
    }
    for name, args in combos.items():
        n0 = len(CAPTURED)

        def go(args=args):
            oo = opytimizer.Opytimizer(*args)
            return sorted(vars(oo))
        attempt(f'opy.ctor.{name}', go)
        rec(f'opy.ctor.{name}.log', CAPTURED[n0:])

    # setters on an existing object: failures keep the previous value
    for attr, good in (('space', space), ('optimizer', p), ('function', f)):
        for name, v in (('unbuilt', Fake(False)), ('none', None), ('nobuilt', NoBuilt()), ('good', good),
                        ('fake', Fake(True))):
            prev = getattr(o, attr)
            n0 = len(CAPTURED)

            def go(attr=attr, v=v):
                setattr(o, attr, v)
                return getattr(o, attr) is v
            attempt(f'opy.set.{attr}.{name}', go)
            rec(f'opy.set.{attr}.{name}.kept', getattr(o, attr) is prev, getattr(o, attr) is v, CAPTURED[n0:])
        setattr(o, attr, good if attr != 'optimizer' else s)

    # start: seeded runs through SA and PSO
    for seed, (opt, sbo, hk) in enumerate([(s, False, None), (s, True, None), (p, False, None),
                                            (s, False, lambda a, b, c: None)]):
        np.random.seed(2024 + seed)
        sp = search.SearchSpace(n_agents=4, n_variables=2, n_iterations=6, lower_bound=[-1, -1], upper_bound=[1, 1])
        oo = opytimizer.Opytimizer(sp, opt, f)
        n0 = len(CAPTURED)

        def go():
            h = oo.start(sbo, hk) if seed % 2 else oo.start(store_best_only=sbo, pre_evaluation_hook=hk)
            t = h.time
            return (hist(h), type(t).__name__, len(t), type(t[0]).__name__, t[0] >= 0)
        attempt(f'opy.start.{seed}', go)
        rec(f'opy.start.{seed}.state', [a.position for a in sp.agents], sp.best_agent.fit, stream_probe())
        rec(f'opy.start.{seed}.log', [m for m in CAPTURED[n0:] if 'opytimizer.opytimizer|' in m])

    # start with an optimizer whose run raises / returns something without dump
    class Opt(Fake):
        def __init__(self, ret):
            Fake.__init__(self, True)
            self.ret = ret
            self.seen = None

        def run(self, *a, **k):
            self.seen = (a, sorted(k))
            if isinstance(self.ret, BaseException):
                raise self.ret
            return self.ret
    for name, ret in (('raises', ZeroDivisionError('z')), ('none', None), ('obj', object())):
        op = Opt(ret)
        oo = opytimizer.Opytimizer(space, op, f)
        attempt(f'opy.start.fake.{name}', lambda: oo.start(True, 5))
        rec(f'opy.start.fake.{name}.seen', op.seen[0][0] is space, op.seen[0][1] is f, op.seen[0][2:], op.seen[1])


setters()
updates()
runs()
opyt()

blob = '\n'.join(OUT) + '\n##LOG##\n' + '\n'.join(CAPTURED)
import os
if os.environ.get("SAME_DUMP"):
    open(os.environ["SAME_DUMP"], "w").write(blob)
print(len(OUT), 'records,', len(CAPTURED), 'log messages')
print(hashlib.sha256(blob.encode()).hexdigest())
