import hashlib
import logging
import warnings

import numpy as np

warnings.simplefilter('ignore')
logging.disable(logging.CRITICAL)

_H = hashlib.sha256()
_N = [0]


def enc(x):
    """Canonical, bit-exact textual encoding of a result."""
    if isinstance(x, np.ndarray):
        return 'nd[%s|%s|%s]' % (x.dtype, x.shape, ','.join(enc(v) for v in x.ravel().tolist()))
    if isinstance(x, (bool, np.bool_)):
        return 'b%d' % bool(x)
    if isinstance(x, (float, np.floating)):
        return type(x).__name__ + ':' + float(x).hex()
    if isinstance(x, (int, np.integer)):
        return type(x).__name__ + ':' + str(int(x))
    if isinstance(x, (list, tuple)):
        return type(x).__name__ + '(' + ','.join(enc(v) for v in x) + ')'
    if isinstance(x, dict):
        return '{' + ','.join(enc(k) + '=' + enc(x[k]) for k in sorted(x)) + '}'
    if x is None or isinstance(x, str):
        return repr(x)
    return '<' + type(x).__name__ + '>'


def rng():
    """Digest of the global NumPy random state (detects any change in consumption)."""
    s = np.random.get_state()
    return hashlib.sha256(s[1].tobytes() + repr(s[2:]).encode()).hexdigest()[:16]


def rec(tag, *vals):
    line = tag + ' :: ' + ' ; '.join(v if isinstance(v, str) and v.startswith('!') else enc(v) for v in vals)
    _H.update(line.encode() + b'\n')
    _N[0] += 1


def call(tag, f, *a, **k):
    """Calls f, records its result or its exception (type and message) and the RNG state afterwards."""
    try:
        out = f(*a, **k)
        rec(tag, out, '!rng=' + rng())
        return out
    except BaseException as ex:  # noqa
        rec(tag, '!EXC ' + type(ex).__name__ + ': ' + str(ex), '!rng=' + rng())
        return None


def finish():
    print('records:', _N[0])
    print(_H.hexdigest())

import itertools

import opytimizer.math.general as g
from opytimizer import Opytimizer
from opytimizer.core.function import Function
from opytimizer.optimizers.gp import GP
from opytimizer.spaces.tree import TreeSpace


def gen(n):
    for i in range(n):
        yield i * 0.5


class Boom:
    """Iterable that fails after three items."""

    def __iter__(self):
        yield 1
        yield 2
        yield 3
        raise RuntimeError('boom after three')


np.random.seed(2024)

INPUTS = [
    ('empty', lambda: []),
    ('one', lambda: [1]),
    ('two', lambda: [1, 2]),
    ('odd', lambda: [1, 2, 3, 4, 5]),
    ('even', lambda: [0.5, 1.5, 2.5, 3.5]),
    ('tuple', lambda: (9, 8, 7)),
    ('str', lambda: 'abcde'),
    ('range', lambda: range(7)),
    ('gen6', lambda: gen(6)),
    ('gen5', lambda: gen(5)),
    ('nd', lambda: np.arange(6.0)),
    ('nd2d', lambda: np.arange(6.0).reshape(3, 2)),
    ('dict', lambda: {'a': 1, 'b': 2, 'c': 3}),
    ('nones', lambda: [None, None, None]),
    ('nested-empty', lambda: [(), (), 1, 2]),
    ('np-ints', lambda: [np.int64(4), np.int64(2), np.int64(0)]),
]

for name, mk in INPUTS:
    it = call('pw|%s|make' % name, g.pairwise, mk())
    rec('pw|%s|type' % name, type(it).__name__, iter(it) is it)
    call('pw|%s|list' % name, lambda: [tuple(enc(v) for v in p) for p in it])
    # An exhausted result stays exhausted
    call('pw|%s|again' % name, lambda: list(it))

# Not iterable / bad inputs raise at call time
for name, bad in [('int', 3), ('none', None), ('float', 2.5), ('func', len)]:
    call('pw|bad|%s' % name, g.pairwise, bad)

# Laziness and sharing of the underlying iterator
src = iter(range(10))
pw = g.pairwise(src)
rec('lazy0', next(src))           # taken out before any pair is built
rec('lazy1', next(pw))            # (1, 2)
rec('lazy2', next(src))           # 3
rec('lazy3', list(pw))            # (4, 5), (6, 7), (8, 9)
rec('lazy4', list(src))

# A list that grows while it is being paired
vals = [1, 2, 3]
pw = g.pairwise(vals)
rec('grow0', next(pw))
vals.extend([4, 5, 6])
rec('grow1', list(pw), vals)

# Infinite source
pw = g.pairwise(itertools.count(10))
rec('inf', [next(pw) for _ in range(4)])

# An exception in the source propagates when the offending pair is requested
pw = g.pairwise(Boom())
call('boom0', next, pw)
call('boom1', next, pw)
call('boom2', next, pw)

# Two results are independent objects
a, b = g.pairwise([1, 2, 3, 4]), g.pairwise([1, 2, 3, 4])
rec('indep', a is b, next(a), next(b), next(a), next(b))

# Tournament + pairwise together, as GP._crossover uses them
for seed in (0, 5):
    np.random.seed(seed)
    fit = list(np.random.uniform(0, 10, 9))
    sel = g.tournament_selection(fit, 7)
    rec('ts+pw|%d' % seed, sel, [p for p in g.pairwise(sel)], '!rng=' + rng())


# End-to-end: seeded GP runs with a high crossover rate
def sphere(x):
    return np.sum(x ** 2)


for seed in (0, 3):
    np.random.seed(seed)
    s = TreeSpace(n_trees=11, n_terminals=3, n_variables=2, n_iterations=15, min_depth=2, max_depth=5,
                  functions=['SUM', 'SUB', 'MUL', 'DIV'], lower_bound=[-10, -10], upper_bound=[10, 10])
    p = GP(hyperparams={'p_reproduction': 0.2, 'p_mutation': 0.2, 'p_crossover': 0.9, 'prunning_ratio': 0.0})
    o = Opytimizer(space=s, optimizer=p, function=Function(pointer=sphere))
    h = o.start()
    rec('gp|s=%d' % seed, [b for b in h.best_agent], [str(t) for t in s.trees], s.best_agent.fit,
        s.best_agent.position, '!rng=' + rng())

finish()
