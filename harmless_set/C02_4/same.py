"""Digest of seeded runs of every optimizer that uses Optimizer._evaluate.

Run as: cd /tmp/harmless/C02 && PYTHONPATH=/tmp/harmless/C02 /venv/bin/python harmlessA/same.py
"""
import hashlib
import logging
import os
import tempfile

os.chdir(tempfile.mkdtemp())  # opytimizer.log goes to a scratch directory

import numpy as np

logging.disable(logging.CRITICAL)

from opytimizer.core.function import Function
from opytimizer.core.optimizer import Optimizer
from opytimizer.optimizers.abc import ABC
from opytimizer.optimizers.ba import BA
from opytimizer.optimizers.bha import BHA
from opytimizer.optimizers.cs import CS
from opytimizer.optimizers.fa import FA
from opytimizer.optimizers.fpa import FPA
from opytimizer.optimizers.gsa import GSA
from opytimizer.optimizers.hc import HC
from opytimizer.optimizers.hs import HS
from opytimizer.optimizers.ihs import IHS
from opytimizer.optimizers.sa import SA
from opytimizer.optimizers.sca import SCA
from opytimizer.optimizers.wca import WCA
from opytimizer.spaces.hyper import HyperSpace
from opytimizer.spaces.search import SearchSpace

H = hashlib.sha256()


def feed(x):
    """Feeds any nested structure of numbers into the digest."""
    if isinstance(x, (list, tuple)):
        H.update(b'[')
        for v in x:
            feed(v)
        H.update(b']')
    elif isinstance(x, np.ndarray):
        H.update(str(x.shape).encode() + str(x.dtype).encode())
        feed(x.tolist())
    elif isinstance(x, (float, np.floating)):
        H.update(float(x).hex().encode() + b';')
    else:
        H.update(repr(x).encode() + b';')


def sphere(x):
    return float(np.sum(x ** 2))


def plateau(x):
    return float(np.sum(np.floor(np.abs(x))))


def sign_changing(x):
    return float(np.sum(x ** 3 - 2 * x))


def multimodal(x):
    return float(np.sum(x ** 2 - 10 * np.cos(2 * np.pi * x) + 10))


def boundary(x):
    return float(np.sum(x))


def constant(x):
    return 1.0


OBJECTIVES = [sphere, plateau, sign_changing, multimodal, boundary, constant]
OPTIMIZERS = [ABC, BA, BHA, CS, FA, FPA, GSA, HC, HS, IHS, SA, SCA, WCA]


def rng_state():
    s = np.random.get_state()
    return [s[0], hashlib.sha256(s[1].tobytes()).hexdigest(), s[2], s[3], float(s[4])]


def one_run(opt_cls, objective, seed, n_agents, n_variables, n_iterations, hyper):
    np.random.seed(seed)
    lb, ub = [-3.0] * n_variables, [2.0] * n_variables
    if hyper:
        space = HyperSpace(n_agents=n_agents, n_variables=n_variables, n_dimensions=2,
                           n_iterations=n_iterations, lower_bound=lb, upper_bound=ub)
    else:
        space = SearchSpace(n_agents=n_agents, n_variables=n_variables,
                            n_iterations=n_iterations, lower_bound=lb, upper_bound=ub)
    calls = []

    def wrapped(x):
        v = objective(x)
        calls.append((np.array(x, copy=True), v))
        return v

    function = Function(pointer=wrapped)
    optimizer = opt_cls()
    feed([opt_cls.__name__, objective.__name__, seed, n_agents, n_variables, n_iterations, hyper])
    try:
        history = optimizer.run(space, function)
    except Exception as exc:  # same exception, same message expected both ways
        feed(['EXC', type(exc).__name__, str(exc)])
        history = None
    if history is not None:
        feed(getattr(history, 'agents', 'no-agents'))
        feed(getattr(history, 'best_agent', 'no-best'))
    feed(len(calls))
    for pos, v in calls:
        feed(pos)
        feed(v)
    feed(space.best_agent.position)
    feed(space.best_agent.fit)
    # the best position must be a private copy, not an alias of an agent
    feed([space.best_agent.position is a.position for a in space.agents])
    feed([np.shares_memory(space.best_agent.position, a.position) for a in space.agents])
    feed([[a.position, a.fit] for a in space.agents])
    feed(rng_state())


def direct_calls():
    """Calls Optimizer._evaluate itself on hand-made spaces (ties, no improvement, one agent)."""
    opt = Optimizer()
    for seed in (0, 1, 2):
        for n_agents in (1, 2, 5):
            np.random.seed(seed)
            space = SearchSpace(n_agents=n_agents, n_variables=3, n_iterations=1,
                                lower_bound=[-1, -1, -1], upper_bound=[1, 1, 1])
            for objective in (constant, plateau, sphere, boundary):
                opt._evaluate(space, Function(pointer=objective))
                feed(space.best_agent.position)
                feed(space.best_agent.fit)
                feed(type(space.best_agent.fit).__name__)
                feed([a.fit for a in space.agents])
                # mutate agents; the best must not follow
                for a in space.agents:
                    a.position += 0.25
                feed(space.best_agent.position)
            feed(rng_state())


def main():
    direct_calls()
    for opt_cls in OPTIMIZERS:
        for k, objective in enumerate(OBJECTIVES):
            for seed in (0, 7):
                one_run(opt_cls, objective, seed + k, 4, 2, 4, False)
            one_run(opt_cls, objective, 11 + k, 1, 1, 3, False)
            one_run(opt_cls, objective, 23 + k, 3, 2, 2, True)
            one_run(opt_cls, objective, 31 + k, 2, 3, 1, False)
    print(H.hexdigest())


if __name__ == '__main__':
    main()
