"""Exercises Space._build/_create_agents and the TreeSpace construction helpers
on seeded inputs and prints a digest of everything observable as the last line."""
import hashlib

import numpy as np

from opytimizer.core.space import Space
from opytimizer.spaces.hyper import HyperSpace
from opytimizer.spaces.search import SearchSpace
from opytimizer.spaces.tree import TreeSpace

out = []


def put(*items):
    for it in items:
        if isinstance(it, np.ndarray):
            out.append('arr%s%s[' % (it.shape, it.dtype))
            for v in it.ravel().tolist():
                put(v)
            out.append(']')
        elif isinstance(it, float):
            out.append(it.hex())
        else:
            out.append(repr(it))


def rng_mark():
    # the state of the global stream after the call: detects extra/missing draws
    st = np.random.get_state()
    put(hashlib.sha256(st[1].tobytes()).hexdigest(), int(st[2]))


def put_agent(a):
    put(type(a).__name__, a.n_variables, a.n_dimensions, a.position, float(a.fit), a.lb, a.ub)


def put_tree(node, terminals):
    if node is None:
        put('nil')
        return
    put(node.type, node.name, node.flag, node.parent is None if node.parent is None else repr(node.parent))
    if node.type == 'TERMINAL':
        put(node.value)
        # aliasing: which terminal (if any) shares its position array with the leaf
        put([i for i, t in enumerate(terminals) if t.position is node.value])
    else:
        put(node.value)
    put_tree(node.left, terminals)
    put_tree(node.right, terminals)


def put_space(s):
    put(type(s).__name__, s.built, s.n_agents, s.n_variables, s.n_dimensions, s.n_iterations)
    put(s.lb, s.ub, type(s.lb).__name__, len(s.agents), type(s.agents).__name__)
    for a in s.agents:
        put_agent(a)
    put_agent(s.best_agent)
    # identities / aliasing
    put([s.best_agent is a for a in s.agents])
    put([s.best_agent.position is a.position for a in s.agents])
    put(len({id(a) for a in s.agents}), len({id(a.position) for a in s.agents}))
    put(len({id(a.lb) for a in s.agents}), len({id(a.ub) for a in s.agents}))
    put([a.lb is s.lb for a in s.agents], [a.ub is s.ub for a in s.agents])
    if isinstance(s, TreeSpace):
        put(s.n_trees, s.n_terminals, s.min_depth, s.max_depth, s.functions, len(s.terminals), len(s.trees))
        for t in s.terminals:
            put_agent(t)
        put(len({id(t) for t in s.terminals}), [t in s.agents for t in s.terminals])
        for t in s.trees:
            put_tree(t, s.terminals)
        put_tree(s.best_tree, s.terminals)
        put([s.best_tree is t for t in s.trees])
        put(str(s.best_tree))


def attempt(label, fn):
    put('case', label)
    try:
        res = fn()
    except BaseException as ex:  # noqa
        put('EXC', type(ex).__module__, type(ex).__name__, str(ex))
        res = None
    rng_mark()
    return res


def case(label, seed, fn):
    np.random.seed(seed)
    s = attempt(label, fn)
    if s is not None:
        put_space(s)
    return s


F2 = ['SUM', 'SUB', 'MUL', 'DIV']
FALL = ['SUM', 'SUB', 'MUL', 'DIV', 'EXP', 'SQRT', 'LOG', 'ABS']

for seed in (0, 1, 7, 12345):
    case('search-1', seed, lambda: SearchSpace())
    case('search-5x3', seed, lambda: SearchSpace(n_agents=5, n_variables=3, n_iterations=4,
                                                 lower_bound=[-1, 0, 2.5], upper_bound=[1, 10, 2.5]))
    case('search-inverted', seed, lambda: SearchSpace(n_agents=2, n_variables=2,
                                                      lower_bound=[3, 1e300], upper_bound=[-3, -1e300]))
    case('search-inf-nan', seed, lambda: SearchSpace(n_agents=2, n_variables=3,
                                                     lower_bound=[float('-inf'), float('nan'), 0],
                                                     upper_bound=[0, 1, float('inf')]))
    case('search-tuple-bounds', seed, lambda: SearchSpace(n_agents=2, n_variables=2,
                                                          lower_bound=(0, 1), upper_bound=np.array([2, 3])))
    case('hyper', seed, lambda: HyperSpace(n_agents=3, n_variables=2, n_dimensions=4, n_iterations=3,
                                            lower_bound=[0, 0], upper_bound=[1, 1]))
    case('tree-default', seed, lambda: TreeSpace())
    case('tree-f2', seed, lambda: TreeSpace(n_trees=4, n_terminals=3, n_variables=2, n_iterations=5,
                                            min_depth=1, max_depth=4, functions=list(F2),
                                            lower_bound=[-5, 0], upper_bound=[5, 1]))
    case('tree-all', seed, lambda: TreeSpace(n_trees=6, n_terminals=2, n_variables=3,
                                             min_depth=2, max_depth=6, functions=list(FALL),
                                             lower_bound=[0, -1, 10], upper_bound=[1, 1, 20]))
    case('tree-flat', seed, lambda: TreeSpace(n_trees=3, n_terminals=4, n_variables=1,
                                              min_depth=2, max_depth=2, functions=list(F2)))
    case('tree-nofunc', seed, lambda: TreeSpace(n_trees=2, n_terminals=5, n_variables=2, min_depth=1,
                                                max_depth=3, lower_bound=[0, 0], upper_bound=[1, 1]))

    # direct calls of the private methods on a built space
    def direct():
        s = TreeSpace(n_trees=3, n_terminals=2, n_variables=2, min_depth=1, max_depth=3,
                      functions=list(F2), lower_bound=[-1, -2], upper_bound=[1, 2])
        old_agents, old_terms, old_trees = s.agents, s.terminals, s.trees
        ags, best = s._create_agents()
        put(len(ags), best is ags[0], ags is old_agents, [a.position for a in ags])
        put_agent(best)
        rng_mark()
        terms = s._create_terminals()
        put(len(terms), terms is old_terms, s.terminals is old_terms)
        for t in terms:
            put_agent(t)
        rng_mark()
        s._initialize_terminals()
        rng_mark()
        s._initialize_agents()
        rng_mark()
        trees, best_tree = s._create_trees()
        put(trees is old_trees, s.trees is old_trees, best_tree is trees[0])
        rng_mark()
        trees2, _ = s._create_trees('GROW')
        put(len(trees2))
        rng_mark()
        s._build([4, 5], [6, 7])
        put(s.agents is old_agents, [a.position for a in s.agents], s.lb, s.ub)
        rng_mark()
        return s
    case('direct', seed, direct)

    def unknown_algorithm():
        s = TreeSpace(n_trees=2, n_terminals=2, functions=list(F2))
        s._create_trees(algorithm='FULL')
    case('tree-unknown-algorithm', seed, unknown_algorithm)

    def base_space():
        s = Space(n_agents=3, n_variables=2, n_dimensions=2)
        s._build([0, 1], [2, 3])
        put_space(s)
        lb, ub = [9, 8], [7, 6]
        s._build(lb, ub)
        put(lb, ub)
        return s
    case('base-space', seed, base_space)

# error paths
case('err-lb-size', 3, lambda: SearchSpace(n_agents=2, n_variables=2, lower_bound=[0], upper_bound=[1, 1]))
case('err-ub-size', 3, lambda: SearchSpace(n_agents=2, n_variables=2, lower_bound=[0, 0], upper_bound=[1]))
case('err-scalar-bound', 3, lambda: SearchSpace(n_agents=2, n_variables=1, lower_bound=0, upper_bound=1))
case('err-none-bound', 3, lambda: SearchSpace(n_agents=2, n_variables=1, lower_bound=None, upper_bound=[1]))
case('err-str-bound', 3, lambda: SearchSpace(n_agents=1, n_variables=1, lower_bound=['a'], upper_bound=['b']))
case('err-nested-bound', 3, lambda: SearchSpace(n_agents=2, n_variables=2, lower_bound=[[0, 0], [0, 0]],
                                                upper_bound=[[1, 1], [1, 1]]))
case('err-agents-0', 3, lambda: SearchSpace(n_agents=0))
case('err-agents-float', 3, lambda: SearchSpace(n_agents=2.0))
case('err-vars-0', 3, lambda: SearchSpace(n_variables=0))
case('err-tree-terminals-0', 3, lambda: TreeSpace(n_terminals=0))
case('err-tree-terminals-str', 3, lambda: TreeSpace(n_terminals='2'))
case('err-tree-depth', 3, lambda: TreeSpace(min_depth=3, max_depth=2))
case('err-tree-functions', 3, lambda: TreeSpace(functions='SUM'))
case('err-tree-unknown-func', 3, lambda: TreeSpace(n_trees=3, functions=['POW'], max_depth=5))
case('err-tree-lb-size', 3, lambda: TreeSpace(n_variables=2, lower_bound=[0], upper_bound=[1, 2]))


def broken_build():
    s = Space(n_agents=2, n_variables=2)
    old_agents, old_best = s.agents, s.best_agent
    s._create_agents = lambda: ([], None)
    try:
        s._build([0, 0], [1, 1])
    finally:
        # what was stored before the failure
        put(s.agents is old_agents, s.agents, s.best_agent is old_best, s.built, s.lb, s.ub)


case('err-build-best-not-agent', 3, broken_build)


def broken_build2():
    s = Space(n_agents=2, n_variables=2)
    old_agents, old_best = s.agents, s.best_agent
    s._create_agents = lambda: (None, s.best_agent, 3)
    try:
        s._build([0, 0], [1, 1])
    finally:
        put(s.agents is old_agents, s.best_agent is old_best, s.built, s.lb, s.ub)


case('err-build-arity', 3, broken_build2)


def broken_build3():
    s = Space(n_agents=2, n_variables=2)
    old_agents, old_best = s.agents, s.best_agent
    s._create_agents = lambda: ('notalist', s.best_agent)
    try:
        s._build([0, 0], [1, 1])
    finally:
        put(s.agents is old_agents, s.best_agent is old_best, s.built)


case('err-build-agents-not-list', 3, broken_build3)

print('items', len(out))
print(hashlib.sha256('\n'.join(out).encode()).hexdigest())
