"""Exercises History.dump/_parse/get/save/load and Opytimizer.start; prints a digest last."""
import hashlib
import logging
import os
import pickle
import re
import tempfile
import time

import numpy as np

import opytimizer
import opytimizer.opytimizer as opyt_mod
from opytimizer.core import function
from opytimizer.core.agent import Agent
from opytimizer.optimizers import pso
from opytimizer.spaces import search
from opytimizer.utils.history import History

OUT = []
TMP = []
MUTE = []


class Capture(logging.Handler):
    """Records the messages of the loggers of the modules under test into the digest."""

    def emit(self, record):
        if MUTE:
            return
        OUT.append('LOG %s %s %s' % (record.name, record.levelname, re.sub(r'0x[0-9a-f]+', '@', record.getMessage())))


for name, lg in list(logging.Logger.manager.loggerDict.items()):
    if name.startswith('opytimizer') and isinstance(lg, logging.Logger):
        for hd in list(lg.handlers):
            lg.removeHandler(hd)
            hd.close()
        if name in ('opytimizer.opytimizer', 'opytimizer.utils.exception', 'opytimizer.utils.history'):
            lg.addHandler(Capture())


def enc(x):
    """Canonical, type-revealing encoding of nested results."""
    if isinstance(x, (bool, np.bool_)):
        return 'b%s' % bool(x)
    if isinstance(x, (float, np.floating)):
        return '%s:%s' % (type(x).__name__, float(x).hex())
    if isinstance(x, (int, np.integer)):
        return '%s:%d' % (type(x).__name__, int(x))
    if isinstance(x, np.ndarray):
        return 'nd[%s|%s|%s]' % (x.dtype, x.shape, ','.join(enc(v) for v in x.ravel().tolist()) if x.dtype != object
                                 else ','.join(enc(v) for v in x.ravel()))
    if isinstance(x, tuple):
        return 't(' + ','.join(enc(v) for v in x) + ')'
    if isinstance(x, list):
        return 'l[' + ','.join(enc(v) for v in x) + ']'
    if isinstance(x, dict):
        return 'd{' + ','.join('%s=%s' % (k, enc(v)) for k, v in x.items()) + '}'
    if x is None:
        return 'None'
    if isinstance(x, str):
        return 's' + repr(x)
    return 'o<%s>' % type(x).__name__


def rec(label, thunk):
    try:
        r = thunk()
        OUT.append('%s => %s' % (label, enc(r)))
    except BaseException as ex:  # noqa
        OUT.append('%s !! %s: %s' % (label, type(ex).__name__, str(ex).replace(TMP[0], '<TMP>') if TMP else ex))


def mk_agents(rng, n, nv, nd):
    ags = []
    for _ in range(n):
        a = Agent(n_variables=nv, n_dimensions=nd)
        a.position = rng.uniform(-5, 5, (nv, nd))
        a.fit = float(rng.uniform(0, 100))
        ags.append(a)
    return ags


def state(h):
    return {k: v for k, v in h.__dict__.items()}


# ---------------------------------------------------------------- _parse / dump
for seed in (0, 1, 7):
    rng = np.random.RandomState(seed)
    for sbo in (False, True):
        h = History(store_best_only=sbo)
        for it in range(3):
            ags = mk_agents(rng, 4, 2 + seed % 2, 1)
            best = min(ags, key=lambda a: a.fit)
            local = [rng.uniform(-1, 1, (2, 1)) for _ in range(4)]
            h.dump(agents=ags, best_agent=best, local=local, extra=it, k=seed, v=[it, seed], key='x', value=None)
        rec('dump s=%d sbo=%s' % (seed, sbo), lambda: state(h))
        rec('keys s=%d sbo=%s' % (seed, sbo), lambda: list(h.__dict__.keys()))

        # aliasing: un-parsed values are stored by reference; parsed ones are fresh
        marker = [1, 2, 3]
        h.dump(marker=marker)
        rec('alias marker', lambda: h.marker[0] is marker)
        a = mk_agents(rng, 1, 2, 1)[0]
        a.fit = np.float64(3.25)
        h.dump(best_agent=a)
        rec('alias best', lambda: (h.best_agent[-1][1] is a.fit, type(h.best_agent[-1][1]).__name__,
                                   type(h.best_agent[-1][0]).__name__))
        a.position[0][0] = 99.0
        rec('best unaffected', lambda: h.best_agent[-1])

h = History()
rec('_parse unknown', lambda: h._parse('nothing', 3))
rec('_parse time', lambda: h._parse('time', 3.0))
rec('_parse agents empty', lambda: h._parse('agents', []))
rec('_parse local empty', lambda: h._parse('local', []))
rec('_parse agents gen', lambda: h._parse('agents', (a for a in mk_agents(np.random.RandomState(3), 2, 1, 1))))
rec('_parse agents bad', lambda: h._parse('agents', [1, 2]))
rec('_parse agents half bad', lambda: h._parse('agents', mk_agents(np.random.RandomState(3), 1, 1, 1) + [None]))
rec('_parse agents not iterable', lambda: h._parse('agents', 5))
rec('_parse best bad', lambda: h._parse('best_agent', None))
rec('_parse local bad', lambda: h._parse('local', [np.ones(2), [1.0]]))
rec('_parse local None', lambda: h._parse('local', None))
nan_agent = Agent(n_variables=1, n_dimensions=1)
nan_agent.position = np.array([[np.nan]])
nan_agent.fit = float('inf')
rec('_parse best nan', lambda: h._parse('best_agent', nan_agent))
rec('dump nothing', lambda: (h.dump(), state(h))[1])
rec('dump bad agents', lambda: h.dump(first=1, agents=[1], second=2))
rec('state after failed dump', lambda: state(h))
rec('dump store_best_only attr', lambda: (h.dump(store_best_only=5), state(h))[1])
h2 = History(store_best_only=True)
rec('dump onto non-list attr', lambda: h2.dump(store_best_only=5))
rec('dump positional', lambda: h2.dump(1))
h3 = History(store_best_only=True)
rec('sbo skip keeps others', lambda: (h3.dump(a=1, agents=[1], b=2, local=None, best_agent=nan_agent), state(h3))[1])

# ---------------------------------------------------------------- get
rng = np.random.RandomState(11)
h = History()
for it in range(4):
    ags = mk_agents(rng, 3, 2, 1)
    h.dump(agents=ags, best_agent=min(ags, key=lambda a: a.fit),
           local=[rng.uniform(-1, 1, (2, 1)) for _ in range(3)], time=float(it), scalar=it,
           rag=list(range(it + 1)))
rec('get best 0', lambda: h.get(key='best_agent', index=(0,)))
rec('get best 1', lambda: h.get('best_agent', (1,)))
rec('get agents (0,0)', lambda: h.get('agents', (0, 0)))
rec('get agents (2,1)', lambda: h.get('agents', (2, 1)))
rec('get local (0,0,0)', lambda: h.get('local', (0, 0, 0)))
rec('get local (1,1,0)', lambda: h.get('local', (1, 1, 0)))
rec('get local slice', lambda: h.get('local', (slice(0, 2), 0, 0)))
rec('get time ()', lambda: h.get('time', ()))
rec('get scalar ()', lambda: h.get('scalar', ()))
rec('get rag ()', lambda: h.get('rag', ()))
rec('get rag (0,)', lambda: h.get('rag', (0,)))
rec('get index list', lambda: h.get('agents', [0, 0]))
rec('get index int', lambda: h.get('agents', 0))
rec('get wrong size', lambda: h.get('agents', (0,)))
rec('get wrong size 2', lambda: h.get('best_agent', (0, 0, 0)))
rec('get missing', lambda: h.get('nope', (0,)))
rec('get missing bad index', lambda: h.get('nope', 0))
rec('get out of range', lambda: h.get('agents', (9, 0)))
rec('get sbo attr', lambda: h.get('store_best_only', ()))
rec('get non-str key', lambda: h.get(3, ()))
# positions of different lengths between iterations
hr = History()
for n in (1, 2, 3):
    a = Agent(n_variables=n, n_dimensions=1)
    a.position = np.arange(float(n)).reshape(n, 1)
    a.fit = float(n)
    hr.dump(best_agent=a)
rec('get ragged best 0', lambda: hr.get('best_agent', (0,)))
rec('get ragged best 1', lambda: hr.get('best_agent', (1,)))
rec('get ragged best ()', lambda: hr.get('best_agent', ()))

# ---------------------------------------------------------------- save / load
tmp = tempfile.mkdtemp()
TMP.append(tmp)
path = os.path.join(tmp, 'h.pkl')
rec('save', lambda: h.save(path))
with open(path, 'rb') as f:
    raw = f.read()
OUT.append('pickle bytes ' + hashlib.sha256(raw).hexdigest())
fresh = History(store_best_only=True)
fresh.leftover = [1]
rec('load', lambda: fresh.load(file_name=path))
rec('loaded state', lambda: state(fresh))
rec('loaded class', lambda: type(fresh).__name__)
rec('load missing', lambda: fresh.load(os.path.join(tmp, 'missing.pkl')))
rec('save bad dir', lambda: h.save(os.path.join(tmp, 'no', 'h.pkl')))
rec('save non-str', lambda: h.save(None))
bad = os.path.join(tmp, 'bad.pkl')
with open(bad, 'wb') as f:
    f.write(b'not a pickle')
rec('load garbage', lambda: fresh.load(bad))
with open(bad, 'wb') as f:
    pickle.dump(5, f)
rec('load non-history', lambda: fresh.load(bad))
rec('state after failed loads', lambda: state(fresh))
with open(bad, 'wb') as f:
    pickle.dump({'a': 1}, f)
rec('load dict', lambda: fresh.load(bad))
hl = History()
hl.save(path)
rec('load empty', lambda: (fresh.load(path), state(fresh))[1])

# ---------------------------------------------------------------- Opytimizer.start


class Clock:
    """Scripted clock standing in for the `time` module used by opytimizer.opytimizer."""

    def __init__(self, values):
        self.values = list(values)
        self.calls = 0

    def time(self):
        self.calls += 1
        return self.values.pop(0)


def sphere(x):
    return np.sum(x ** 2)


def run(seed, sbo, clock_values, hook=None, n_agents=4, n_iter=5):
    np.random.seed(seed)
    space = search.SearchSpace(n_agents=n_agents, n_iterations=n_iter, n_variables=2,
                               lower_bound=[-5, -5], upper_bound=[5, 5])
    o = opytimizer.Opytimizer(space=space, optimizer=pso.PSO(), function=function.Function(pointer=sphere))
    clock = Clock(clock_values)
    real = opyt_mod.time
    opyt_mod.time = clock
    try:
        if hook is None:
            hist = o.start(store_best_only=sbo)
        else:
            hist = o.start(sbo, hook)
    finally:
        opyt_mod.time = real
    return hist, clock, np.random.uniform()


hooks = []
for seed in (0, 3, 12345):
    for sbo in (False, True):
        for cv in ([10.0, 12.5], [0.1, 0.30000000000000004], [5.0, 5.0], [7.0, 3.0], [1e16, 1e16 + 2],
                   [float('nan'), 1.0], [3, 10]):
            def thunk(seed=seed, sbo=sbo, cv=cv):
                hist, clock, nxt = run(seed, sbo, cv)
                return (state(hist), clock.calls, clock.values, nxt)
            rec('start s=%d sbo=%s cv=%s' % (seed, sbo, cv), thunk)


def hook(opt, space, func):
    hooks.append((type(opt).__name__, type(space).__name__, type(func).__name__))


rec('start hook', lambda: (lambda r: (state(r[0]), r[1].calls, r[2], len(hooks), hooks[:1]))(run(5, False, [1.0, 2.0], hook)))
rec('start clock short', lambda: run(5, False, [1.0]))
rec('start clock empty', lambda: run(5, False, []))


class BadOpt:
    built = True

    def run(self, *a):
        raise RuntimeError('boom')


class NoneOpt:
    built = True

    def run(self, *a):
        self.args = a
        return None


def run_custom(opt):
    np.random.seed(0)
    space = search.SearchSpace(n_agents=2, n_iterations=2, n_variables=1, lower_bound=[0], upper_bound=[1])
    o = opytimizer.Opytimizer(space=space, optimizer=opt, function=function.Function(pointer=sphere))
    clock = Clock([1.0, 2.0])
    real = opyt_mod.time
    opyt_mod.time = clock
    try:
        try:
            return o.start()
        except BaseException as ex:  # noqa
            return ('raised', type(ex).__name__, str(ex), clock.calls)
    finally:
        opyt_mod.time = real


rec('start optimizer raises', lambda: run_custom(BadOpt()))
rec('start optimizer returns None', lambda: run_custom(NoneOpt()))


class PreTimed:
    built = True

    def run(self, space, function, sbo, hook):
        h = History(sbo)
        h.dump(time=-1.0)
        self.h = h
        return h


pt = PreTimed()
rec('start appends time', lambda: (lambda r: (state(r), r is pt.h))(run_custom(pt)))

# real clock: only shape / type (the elapsed time itself, also logged, is not reproducible)
MUTE.append(True)
np.random.seed(1)
space = search.SearchSpace(n_agents=2, n_iterations=2, n_variables=1, lower_bound=[0], upper_bound=[1])
hist = opytimizer.Opytimizer(space, pso.PSO(), function.Function(pointer=sphere)).start()
rec('real clock', lambda: (len(hist.time), type(hist.time[0]).__name__, hist.time[0] >= 0, hist.agents, hist.best_agent))

digest = hashlib.sha256('\n'.join(OUT).encode()).hexdigest()
if os.environ.get('SAME_VERBOSE'):
    print('\n'.join(OUT))
print('records: %d' % len(OUT))
print(digest)
