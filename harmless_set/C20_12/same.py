"""Behaviour digest for ABC / CS / FPA update code (seeded runs, edge cases, exceptions)."""
import copy
import hashlib
import logging

import numpy as np

logging.disable(logging.CRITICAL)

from opytimizer.core import function as function_mod
from opytimizer.core.agent import Agent
from opytimizer.optimizers import abc as abc_mod
from opytimizer.optimizers import cs as cs_mod
from opytimizer.optimizers import fpa as fpa_mod
from opytimizer.spaces import search

H = hashlib.sha256()
N_ITEMS = [0]


def put(*items):
    for it in items:
        N_ITEMS[0] += 1
        H.update(enc(it).encode())
        H.update(b'|')


def enc(x):
    if isinstance(x, (bool, np.bool_)):
        return 'b%d' % bool(x)
    if isinstance(x, (float, np.floating)):
        return type(x).__name__ + ':' + float(x).hex()
    if isinstance(x, (int, np.integer)):
        return type(x).__name__ + ':' + str(int(x))
    if isinstance(x, np.ndarray):
        return 'a' + str(x.dtype) + str(x.shape) + '[' + ','.join(enc(v) for v in x.ravel().tolist()) + ']'
    if isinstance(x, (list, tuple)):
        return '(' + ','.join(enc(v) for v in x) + ')'
    if x is None:
        return 'None'
    return 's:' + str(x)


def rng_state():
    s = np.random.get_state()
    return hashlib.sha256(s[1].tobytes() + str(s[2:]).encode()).hexdigest()


class Obj:
    """Objective with a call log; optional failure / NaN / python-float behaviour."""

    def __init__(self, kind='sphere', fail_at=None, nan_at=None, pyfloat=False):
        self.kind, self.fail_at, self.nan_at, self.pyfloat = kind, fail_at, nan_at, pyfloat
        self.calls = 0

    def __call__(self, x):
        self.calls += 1
        put('call', self.calls, np.array(x))
        if self.fail_at is not None and self.calls == self.fail_at:
            raise RuntimeError('objective failed')
        if self.nan_at is not None and self.calls % self.nan_at == 0:
            return float('nan')
        if self.kind == 'sphere':
            v = np.sum(x ** 2)
        elif self.kind == 'shifted':
            v = np.sum((x - 0.3) ** 2) + 1.0
        elif self.kind == 'neg':
            v = -np.sum(np.abs(x))
        else:
            v = np.sum(np.cos(3 * x)) + np.sum(x)
        return float(v) if self.pyfloat else v


def make_agents(n, nv, seed, lb=-1.0, ub=2.0, fits=True):
    rs = np.random.RandomState(seed)
    agents = []
    for _ in range(n):
        a = Agent(n_variables=nv, n_dimensions=1)
        a.lb = np.full(nv, lb)
        a.ub = np.full(nv, ub)
        a.position = rs.uniform(lb, ub, (nv, 1))
        a.fit = float(np.sum(a.position ** 2)) if fits else a.fit
        agents.append(a)
    return agents


def dump_agents(tag, agents, before=None):
    put(tag, len(agents))
    for i, a in enumerate(agents):
        put(a.position, a.fit, type(a.fit).__name__, a.lb, a.ub)
        if before is not None and i < len(before):
            put(a is before[i][0], a.position is before[i][1])
    # aliasing between agents
    for i in range(len(agents)):
        for j in range(i + 1, len(agents)):
            put(agents[i] is agents[j], agents[i].position is agents[j].position)


def snapshot(agents):
    return [(a, a.position) for a in agents]


def attempt(tag, fn):
    try:
        out = fn()
        put(tag, 'ok', out if isinstance(out, (int, float, np.floating, np.integer, np.ndarray)) else None)
        if out is not None:
            put(type(out).__name__)
    except Exception as ex:  # noqa
        put(tag, 'exc', type(ex).__name__, str(ex))
    put(rng_state())


# ----------------------------------------------------------------- ABC
def abc_cases():
    for seed in (0, 1, 7):
        for n, nv in ((1, 1), (2, 3), (5, 2), (9, 4)):
            for kind in ('sphere', 'shifted', 'neg', 'cos'):
                opt = abc_mod.ABC(hyperparams={'n_trials': 2})
                f = function_mod.Function(pointer=Obj(kind))
                agents = make_agents(n, nv, seed + 10)
                trials = np.zeros(n)
                np.random.seed(seed)
                # _evaluate_location directly, with int / float / np.float64 trial counters
                for t0 in (0, 3, 2.5, np.float64(4), trials[0]):
                    attempt('evalloc', lambda: opt._evaluate_location(agents[0], agents[-1], f, t0))
                dump_agents('after-evalloc', agents)
                before = snapshot(agents)
                attempt('employee', lambda: opt._send_employee(agents, f, trials))
                put(trials)
                dump_agents('after-employee', agents, before)
                attempt('onlooker', lambda: opt._send_onlooker(agents, f, trials))
                put(trials)
                dump_agents('after-onlooker', agents, before)
                for rep in range(4):
                    before = snapshot(agents)
                    attempt('scout', lambda: opt._send_scout(agents, f, trials))
                    put(trials)
                    dump_agents('after-scout', agents, before)
                    trials += 1.5
                for rep in range(6):
                    before = snapshot(agents)
                    attempt('update', lambda: opt._update(agents, f, trials))
                    put(trials)
                    dump_agents('after-update', agents, before)

    # scout edge cases: equal to limit, below, above, NaN, inf, int arrays, ties, empty, 2-D
    for seed in (3, 4):
        for tr in ([2.0, 2.0, 2.0], [2.0, 3.0, 3.0], [0.0, 1.0, 2.0], [float('nan'), 5.0, 1.0],
                   [5.0, float('nan'), 1.0], [float('inf'), 0.0, 0.0], [-1.0, -2.0, -3.0], [2.0000000001, 0, 0]):
            opt = abc_mod.ABC(hyperparams={'n_trials': 2})
            f = function_mod.Function(pointer=Obj('shifted'))
            agents = make_agents(3, 2, seed)
            trials = np.array(tr)
            np.random.seed(seed)
            before = snapshot(agents)
            attempt('scout-edge', lambda: opt._send_scout(agents, f, trials))
            put(trials)
            dump_agents('scout-edge', agents, before)
        opt = abc_mod.ABC(hyperparams={'n_trials': 2})
        f = function_mod.Function(pointer=Obj('shifted'))
        agents = make_agents(3, 2, seed)
        np.random.seed(seed)
        trials = np.array([1, 7, 7])
        attempt('scout-int', lambda: opt._send_scout(agents, f, trials))
        put(trials)
        dump_agents('scout-int', agents)
        attempt('scout-empty', lambda: opt._send_scout(agents, f, np.array([])))
        attempt('scout-empty-agents', lambda: opt._send_scout([], f, np.array([5.0])))
        attempt('scout-short-agents', lambda: opt._send_scout(agents[:1], f, np.array([0.0, 5.0])))
        t2 = np.array([[0.0, 1.0], [9.0, 2.0]])
        attempt('scout-2d', lambda: opt._send_scout(agents, f, t2))
        put(t2)
        attempt('scout-list', lambda: opt._send_scout(agents, f, [0.0, 9.0, 1.0]))
        attempt('scout-none', lambda: opt._send_scout(agents, None, np.array([0.0, 9.0, 1.0])))
        attempt('scout-none-ok', lambda: opt._send_scout(agents, None, np.array([0.0, 1.0, 1.0])))
        dump_agents('scout-misc', agents)

    # failing / NaN objective, empty agents, short trials
    for seed in (5, 6):
        for fail_at in (1, 2, 4, 7):
            opt = abc_mod.ABC(hyperparams={'n_trials': 1})
            f = function_mod.Function(pointer=Obj('sphere', fail_at=fail_at))
            agents = make_agents(4, 2, seed)
            trials = np.array([0.0, 3.0, 1.0, 0.0])
            np.random.seed(seed)
            attempt('update-fail', lambda: opt._update(agents, f, trials))
            put(trials)
            dump_agents('update-fail', agents)
        for nan_at in (2, 3):
            opt = abc_mod.ABC(hyperparams={'n_trials': 1})
            f = function_mod.Function(pointer=Obj('shifted', nan_at=nan_at, pyfloat=True))
            agents = make_agents(4, 2, seed)
            agents[1].fit = float('nan')
            trials = np.zeros(4)
            np.random.seed(seed)
            # (no onlooker step here: with a NaN fitness no food source is ever selected)
            for rep in range(3):
                attempt('employee-nan', lambda: opt._send_employee(agents, f, trials))
                put(trials)
                attempt('scout-nan', lambda: opt._send_scout(agents, f, trials))
                put(trials)
                dump_agents('update-nan', agents)
        opt = abc_mod.ABC()
        f = function_mod.Function(pointer=Obj('sphere'))
        np.random.seed(seed)
        attempt('employee-empty', lambda: opt._send_employee([], f, np.zeros(0)))
        attempt('onlooker-empty', lambda: opt._send_onlooker([], f, np.zeros(0)))
        attempt('update-empty', lambda: opt._update([], f, np.zeros(0)))
        agents = make_agents(3, 1, seed)
        tshort = np.zeros(2)
        attempt('employee-short-trials', lambda: opt._send_employee(agents, f, tshort))
        put(tshort)
        dump_agents('employee-short-trials', agents)
        tshort = np.zeros(1)
        attempt('onlooker-short-trials', lambda: opt._send_onlooker(agents, f, tshort))
        put(tshort)
        dump_agents('onlooker-short-trials', agents)
        attempt('employee-tuple', lambda: opt._send_employee(tuple(agents), f, np.zeros(3)))
        attempt('employee-none', lambda: opt._send_employee(None, f, np.zeros(3)))
        attempt('onlooker-none', lambda: opt._send_onlooker(None, f, np.zeros(3)))
        attempt('employee-nofn', lambda: opt._send_employee(agents, None, np.zeros(3)))
        attempt('onlooker-nofn', lambda: opt._send_onlooker(agents, None, np.zeros(3)))
        dump_agents('abc-misc', agents)

    # objective returning plain Python floats (sum() of exact floats has its own code path),
    # ill-conditioned fitness values, and (1,)-array fitness values
    for seed in (8, 9):
        for n in (3, 6, 11):
            opt = abc_mod.ABC(hyperparams={'n_trials': 2})
            f = function_mod.Function(pointer=Obj('shifted', pyfloat=True))
            agents = make_agents(n, 2, seed)
            for j, a in enumerate(agents):
                a.fit = [1e16, 1.0, -1e16, 3.0, 0.1, 1e-9][j % 6] + a.fit
            trials = np.zeros(n)
            np.random.seed(seed)
            for rep in range(5):
                attempt('onlooker-pyfloat', lambda: opt._send_onlooker(agents, f, trials))
                put(trials)
                dump_agents('onlooker-pyfloat', agents)
            f = function_mod.Function(pointer=lambda x: (put('acall', np.array(x)), np.sum(x ** 2, axis=0) + 1.0)[1])
            agents = make_agents(n, 2, seed)
            for a in agents:
                a.fit = np.array([a.fit])
            for rep in range(3):
                attempt('update-arrayfit', lambda: opt._update(agents, f, trials))
                put(trials)
                dump_agents('update-arrayfit', agents)

    # cancelling Python-float fitness values: the selection probabilities depend on how the total is summed
    for seed in range(20, 32):
        opt = abc_mod.ABC(hyperparams={'n_trials': 2})
        f = function_mod.Function(pointer=Obj('shifted', pyfloat=True))
        agents = make_agents(5, 2, seed)
        for a, v in zip(agents, [1e16, 1.0, -1e16, 1.0, 1.0]):
            a.fit = v
        trials = np.zeros(5)
        np.random.seed(seed)
        attempt('onlooker-cancel', lambda: opt._send_onlooker(agents, f, trials))
        put(trials)
        dump_agents('onlooker-cancel', agents)

    # full runs
    for seed in (11, 12):
        for n, nv, it, nt in ((1, 1, 5, 1), (4, 2, 12, 1), (7, 3, 10, 3)):
            np.random.seed(seed)
            space = search.SearchSpace(n_agents=n, n_iterations=it, n_variables=nv,
                                       lower_bound=[-2.0] * nv, upper_bound=[3.0] * nv)
            opt = abc_mod.ABC(hyperparams={'n_trials': nt})
            f = function_mod.Function(pointer=Obj('shifted'))
            hist = opt.run(space, f)
            dump_agents('abc-run', space.agents)
            put(space.best_agent.position, space.best_agent.fit)
            for rec in hist.best_agent:
                put(np.array(rec[0]), rec[1])
            put(rng_state())


# ----------------------------------------------------------------- CS
def cs_cases():
    for seed in (0, 2, 9):
        for n, nv in ((2, 1), (3, 3), (6, 2)):
            for kind in ('sphere', 'shifted', 'cos'):
                opt = cs_mod.CS(hyperparams={'alpha': 0.5, 'beta': 1.5, 'p': 0.3})
                f = function_mod.Function(pointer=Obj(kind))
                agents = make_agents(n, nv, seed + 20)
                best = copy.deepcopy(agents[0])
                np.random.seed(seed)
                new_agents = make_agents(n, nv, seed + 21, lb=-3.0, ub=4.0, fits=False)
                for na in new_agents:
                    na.lb, na.ub = np.full(nv, -1.0), np.full(nv, 2.0)
                before = snapshot(agents)
                nbefore = snapshot(new_agents)
                attempt('evalnests', lambda: opt._evaluate_nests(agents, new_agents, f))
                dump_agents('evalnests-agents', agents, before)
                dump_agents('evalnests-new', new_agents, nbefore)
                for rep in range(5):
                    before = snapshot(agents)
                    attempt('cs-update', lambda: opt._update(agents, best, f))
                    dump_agents('cs-update', agents, before)
                # best aliasing one of the agents
                for rep in range(3):
                    attempt('cs-update-alias', lambda: opt._update(agents, agents[-1], f))
                    dump_agents('cs-update-alias', agents)

    for seed in (3, 4):
        opt = cs_mod.CS()
        # mismatched lengths, empty lists, tuples, generators
        for na, nb in ((3, 2), (2, 3), (0, 2), (2, 0), (0, 0), (1, 1)):
            f = function_mod.Function(pointer=Obj('sphere'))
            agents = make_agents(na, 2, seed)
            new_agents = make_agents(nb, 2, seed + 1, lb=-3.0, ub=4.0, fits=False)
            np.random.seed(seed)
            attempt('evalnests-mismatch', lambda: opt._evaluate_nests(agents, new_agents, f))
            dump_agents('mm-a', agents)
            dump_agents('mm-b', new_agents)
            attempt('evalnests-tuple', lambda: opt._evaluate_nests(tuple(agents), tuple(new_agents), f))
            dump_agents('mm-a', agents)
            dump_agents('mm-b', new_agents)
        f = function_mod.Function(pointer=Obj('sphere'))
        agents = make_agents(3, 2, seed)
        attempt('evalnests-none1', lambda: opt._evaluate_nests(None, agents, f))
        attempt('evalnests-none2', lambda: opt._evaluate_nests(agents, None, f))
        attempt('evalnests-nofn', lambda: opt._evaluate_nests(agents, copy.deepcopy(agents), None))
        attempt('evalnests-same', lambda: opt._evaluate_nests(agents, agents, f))
        dump_agents('evalnests-same', agents)
        attempt('cs-update-empty', lambda: opt._update([], agents[0], f))
        for fail_at in (1, 2, 4, 5):
            f = function_mod.Function(pointer=Obj('shifted', fail_at=fail_at))
            agents = make_agents(3, 2, seed)
            np.random.seed(seed)
            attempt('cs-update-fail', lambda: opt._update(agents, copy.deepcopy(agents[1]), f))
            dump_agents('cs-update-fail', agents)
        f = function_mod.Function(pointer=Obj('shifted', nan_at=2, pyfloat=True))
        agents = make_agents(4, 2, seed)
        agents[2].fit = float('nan')
        np.random.seed(seed)
        for rep in range(3):
            attempt('cs-update-nan', lambda: opt._update(agents, copy.deepcopy(agents[1]), f))
            dump_agents('cs-update-nan', agents)

    for seed in (11, 12):
        for n, nv, it in ((2, 1, 5), (5, 2, 10)):
            np.random.seed(seed)
            space = search.SearchSpace(n_agents=n, n_iterations=it, n_variables=nv,
                                       lower_bound=[-2.0] * nv, upper_bound=[3.0] * nv)
            opt = cs_mod.CS(hyperparams={'p': 0.4})
            f = function_mod.Function(pointer=Obj('shifted'))
            hist = opt.run(space, f)
            dump_agents('cs-run', space.agents)
            put(space.best_agent.position, space.best_agent.fit)
            for rec in hist.best_agent:
                put(np.array(rec[0]), rec[1])
            put(rng_state())


# ----------------------------------------------------------------- FPA
def fpa_cases():
    for seed in (0, 5, 8):
        for n, nv in ((1, 1), (2, 2), (5, 3), (8, 1)):
            for p in (0, 0.0, 0.35, 0.8, 1, 1.0):
                opt = fpa_mod.FPA(hyperparams={'beta': 1.5, 'eta': 0.2, 'p': p})
                f = function_mod.Function(pointer=Obj('shifted'))
                agents = make_agents(n, nv, seed + 30)
                best = copy.deepcopy(agents[n // 2])
                np.random.seed(seed)
                for rep in range(4):
                    before = snapshot(agents)
                    attempt('fpa-update', lambda: opt._update(agents, best, f))
                    dump_agents('fpa-update', agents, before)
                for rep in range(3):
                    attempt('fpa-update-alias', lambda: opt._update(agents, agents[0], f))
                    dump_agents('fpa-update-alias', agents)

    for seed in (3, 4):
        opt = fpa_mod.FPA(hyperparams={'p': 0.5})
        f = function_mod.Function(pointer=Obj('sphere'))
        agents = make_agents(3, 2, seed)
        np.random.seed(seed)
        attempt('fpa-empty', lambda: opt._update([], agents[0], f))
        attempt('fpa-none', lambda: opt._update(None, agents[0], f))
        attempt('fpa-int', lambda: opt._update(3, agents[0], f))
        attempt('fpa-nobest', lambda: opt._update(agents, None, f))
        attempt('fpa-nofn', lambda: opt._update(agents, agents[0], None))
        attempt('fpa-tuple', lambda: opt._update(tuple(agents), copy.deepcopy(agents[0]), f))
        attempt('fpa-gen', lambda: opt._update((a for a in agents), copy.deepcopy(agents[0]), f))
        attempt('fpa-iter', lambda: opt._update(iter(agents), copy.deepcopy(agents[0]), f))
        dump_agents('fpa-misc', agents)
        for p in (0.0, 1.0):
            opt2 = fpa_mod.FPA(hyperparams={'p': p})
            attempt('fpa-gen-p', lambda: opt2._update((a for a in agents), copy.deepcopy(agents[0]), f))
            attempt('fpa-empty-p', lambda: opt2._update([], agents[0], f))
            attempt('fpa-none-p', lambda: opt2._update(None, agents[0], f))
        for fail_at in (1, 2, 3):
            f2 = function_mod.Function(pointer=Obj('shifted', fail_at=fail_at))
            agents = make_agents(3, 2, seed)
            np.random.seed(seed)
            attempt('fpa-fail', lambda: opt._update(agents, copy.deepcopy(agents[1]), f2))
            dump_agents('fpa-fail', agents)
        f3 = function_mod.Function(pointer=Obj('shifted', nan_at=2, pyfloat=True))
        agents = make_agents(4, 2, seed)
        agents[2].fit = float('nan')
        np.random.seed(seed)
        for rep in range(3):
            attempt('fpa-nan', lambda: opt._update(agents, copy.deepcopy(agents[1]), f3))
            dump_agents('fpa-nan', agents)

    for seed in (11, 12):
        for n, nv, it in ((1, 1, 5), (5, 2, 10)):
            np.random.seed(seed)
            space = search.SearchSpace(n_agents=n, n_iterations=it, n_variables=nv,
                                       lower_bound=[-2.0] * nv, upper_bound=[3.0] * nv)
            opt = fpa_mod.FPA(hyperparams={'p': 0.6})
            f = function_mod.Function(pointer=Obj('shifted'))
            hist = opt.run(space, f)
            dump_agents('fpa-run', space.agents)
            put(space.best_agent.position, space.best_agent.fit)
            for rec in hist.best_agent:
                put(np.array(rec[0]), rec[1])
            put(rng_state())


if __name__ == '__main__':
    import warnings
    warnings.simplefilter('ignore')
    abc_cases()
    cs_cases()
    fpa_cases()
    print('items hashed:', N_ITEMS[0])
    print(H.hexdigest())
