"""Digest of tournament_selection over seeded inputs and edge cases."""
import hashlib
import warnings

import numpy as np

import opytimizer.math.general as g
import opytimizer.utils.constants as c

warnings.simplefilter('ignore')
h = hashlib.sha256()


def feed(tag, value):
    h.update(repr(tag).encode())
    if isinstance(value, BaseException):
        h.update(('EXC:' + type(value).__name__ + ':' + str(value)).encode())
    else:
        h.update(repr([(type(v).__name__, int(v)) for v in value]).encode())
        h.update(type(value).__name__.encode())


def state_word():
    return float(np.random.uniform()).hex()


rng = np.random.RandomState(99)
fits = [
    [3.0, 1.0, 2.0],
    [1.0, 1.0, 1.0],
    [5.0],
    [],
    np.array([0.3, 0.1, 0.1, 0.7]),
    np.array([]),
    [float('nan'), 1.0, 2.0],
    [float('inf'), -float('inf'), 0.0],
    [2, 1, 3, 1],
    rng.uniform(size=25),
    rng.uniform(size=(3, 2)),
    (4.0, 2.0, 9.0),
    ['b', 'a'],
    None,
    7,
]
ns = [0, 1, 2, 5, -1, 2.0, None, True]

for seed in (0, 3, 2024):
    for i, f in enumerate(fits):
        for n in ns:
            np.random.seed(seed)
            try:
                out = g.tournament_selection(f, n)
            except BaseException as e:  # noqa
                out = e
            feed((seed, i, repr(n)), out)
            h.update(state_word().encode())

# The tournament size is read from the constants module at call time
old = c.TOURNAMENT_SIZE
for size in (1, 3, 0, -2, 2.5):
    c.TOURNAMENT_SIZE = size
    np.random.seed(11)
    try:
        out = g.tournament_selection(fits[9], 4)
    except BaseException as e:  # noqa
        out = e
    feed(('size', size), out)
    h.update(state_word().encode())
c.TOURNAMENT_SIZE = old

# Other helpers of the module are untouched
h.update(repr(list(g.pairwise([1, 2, 3, 4, 5]))).encode())
h.update(float(g.euclidean_distance(np.array([1.0, 2.0]), np.array([0.5, 4.0]))).hex().encode())

print(h.hexdigest())
