"""Digest of tournament_selection / pairwise behaviour on seeded inputs."""
import hashlib
import pickle

import numpy as np

import opytimizer.math.general as g
import opytimizer.utils.constants as c

H = hashlib.sha256()


def put(*items):
    for it in items:
        H.update(repr(it).encode())
        H.update(b'|')


def rng_state():
    s = np.random.get_state()
    return hashlib.sha256(pickle.dumps((s[0], s[1].tobytes(), s[2], s[3], s[4]))).hexdigest()


def run(tag, fitness, n, seed):
    np.random.seed(seed)
    try:
        out = g.tournament_selection(fitness, n)
        put(tag, 'ok', type(out).__name__, len(out),
            [(type(o).__name__, int(o)) for o in out])
    except Exception as e:  # noqa
        put(tag, 'exc', type(e).__name__, str(e))
    put(rng_state())


for seed in range(12):
    np.random.seed(1000 + seed)
    size = 1 + seed * 3
    fit_arr = np.random.uniform(-10, 10, size)
    run('arr', fit_arr, seed, seed)
    run('list', list(fit_arr), seed + 1, seed)
    # ties
    run('ties', np.round(fit_arr), 7, seed)
    # integers
    run('ints', np.arange(size)[::-1], 5, seed)

# edge cases
run('n0', np.array([1.0, 2.0]), 0, 3)
run('nneg', np.array([1.0, 2.0]), -2, 3)
run('empty', np.array([]), 2, 3)
run('emptylist', [], 2, 3)
run('empty_n0', [], 0, 3)
run('nan', np.array([np.nan, 1.0, np.nan, 0.5]), 9, 4)
run('allnan', np.array([np.nan, np.nan]), 3, 4)
run('inf', np.array([np.inf, -np.inf, 0.0]), 9, 5)
run('2d', np.array([[1.0, 2.0], [3.0, 4.0]]), 2, 6)
run('nfloat', np.array([1.0, 2.0]), 2.0, 6)
run('nnone', np.array([1.0, 2.0]), None, 6)
run('scalar', 5, 3, 7)
run('single', [4.2], 4, 8)
run('tuple', (3.0, 1.0, 2.0), 6, 9)
run('strs', ['b', 'a', 'c'], 4, 10)

# different tournament sizes (constant is read at call time)
old = c.TOURNAMENT_SIZE
for ts in (1, 3, 5, 0):
    c.TOURNAMENT_SIZE = ts
    run('ts%d' % ts, np.linspace(3, -3, 11), 6, 11)
c.TOURNAMENT_SIZE = old

# pairwise
for vals in ([], [1], [1, 2], [1, 2, 3], list(range(10)), 'abcde', (x for x in range(7)),
             np.arange(6.0)):
    p = g.pairwise(vals)
    put('pw', type(p).__name__, [tuple(repr(x) for x in t) for t in p])
try:
    g.pairwise(5)
except Exception as e:  # noqa
    put('pwexc', type(e).__name__, str(e))

# combined, as in GP crossover
np.random.seed(77)
fit = np.random.uniform(0, 1, 20)
sel = g.tournament_selection(fit, 9)
put('combo', [tuple(int(i) for i in s) for s in g.pairwise(sel)], rng_state())

print(H.hexdigest())
