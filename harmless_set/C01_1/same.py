"""Digest of SearchSpace.check_limits behaviour (direct calls on edge cases and seeded optimizer runs)."""
import hashlib
import logging
import warnings

import numpy as np

logging.disable(logging.CRITICAL)
warnings.simplefilter('ignore')

from opytimizer import Opytimizer
from opytimizer.core.function import Function
from opytimizer.optimizers.fa import FA
from opytimizer.optimizers.hs import HS
from opytimizer.optimizers.pso import PSO
from opytimizer.optimizers.sca import SCA
from opytimizer.optimizers.wca import WCA
from opytimizer.spaces.search import SearchSpace

H = hashlib.sha256()


def feed(x):
    """Feeds any nested structure of numbers into the digest, bit-exactly."""
    if isinstance(x, np.ndarray):
        H.update(repr((x.shape, str(x.dtype))).encode())
        for v in x.ravel().tolist():
            feed(v)
    elif isinstance(x, (list, tuple)):
        H.update(b'[')
        for v in x:
            feed(v)
        H.update(b']')
    elif isinstance(x, (float, np.floating)):
        H.update(float(x).hex().encode())
    else:
        H.update(repr(x).encode())
    H.update(b';')


def feed_rng():
    st = np.random.get_state()
    H.update(st[1].tobytes())
    feed(int(st[2]))


# 1. direct calls: positions far outside, special values, bounds replaced after construction
specials = [np.nan, np.inf, -np.inf, 0.0, -0.0, 1e308, -1e308, 5e-324, -5e-324]
boxes = [
    ([0, 0, 0], [1, 1, 1]),
    ([-10.0, -1e-9, 3.0], [10.0, 1e-9, 3.0]),
    ([-1e300, -5.0, 0.0], [1e300, -4.999999999, 0.0]),
    ([2.0, 0.0, -1.0], [1.0, 0.0, -3.0]),  # lb > ub
    ([-0.0, 0.0, -1.0], [0.0, -0.0, 1.0]),  # signed zeros
]
for seed, (lo, hi) in enumerate(boxes):
    np.random.seed(100 + seed)
    s = SearchSpace(n_agents=7, n_variables=3, n_iterations=1, lower_bound=lo, upper_bound=hi)
    for a in s.agents:
        feed(a.position)
        feed(a.lb)
        feed(a.ub)
    for k, a in enumerate(s.agents):
        a.position = np.random.normal(0, 10.0 ** (k * 40), size=(3, 1)) if k < 6 \
            else np.array([[specials[(seed + 0) % 9]], [specials[(seed + 3) % 9]], [specials[(seed + 6) % 9]]])
    # every special value in every row
    for v in specials:
        s.agents[0].position = np.full((3, 1), v)
        s.check_limits()
        feed(s.agents[0].position)
    s.agents[0].position = np.random.uniform(-20, 20, size=(3, 1))
    s.check_limits()
    s.check_limits()
    for a in s.agents:
        feed(a.position)
    # space bounds differ from the agents' own bounds afterwards
    s.lb = np.asarray([-0.5, -0.25, -2.0])
    s.ub = np.asarray([0.5, 0.25, -1.5])
    for a in s.agents:
        a.position = np.random.uniform(-3, 3, size=(3, 1))
    s.check_limits()
    for a in s.agents:
        feed(a.position)
        feed(a.lb)
        feed(a.ub)
    # integer-typed and multi-dimensional positions
    s.agents[1].position = np.arange(-6, 6).reshape(3, 4)
    s.agents[2].position = np.random.uniform(-3, 3, size=(3, 5))
    s.check_limits()
    feed(s.agents[1].position)
    feed(s.agents[2].position)
    feed_rng()

# 2. exceptions: fewer position rows than bounds
np.random.seed(7)
s = SearchSpace(n_agents=2, n_variables=3, n_iterations=1, lower_bound=[0, 0, 0], upper_bound=[1, 1, 1])
s.agents[1].position = np.array([[5.0], [-5.0]])
s.agents[0].position = np.array([[5.0], [-5.0], [0.5]])
try:
    s.check_limits()
    feed('no error')
except Exception as ex:  # pylint: disable=broad-except
    feed(type(ex).__name__)
    feed(str(ex))
feed(s.agents[0].position)
feed(s.agents[1].position)
s.agents = []
s.check_limits()
feed('empty ok')

def make_recorder(obj, seen):
    def wrapped(x):
        seen.append(np.array(x, copy=True))
        return obj(x)
    return wrapped


# 3. seeded optimizer runs; every argument the objective sees is recorded
objectives = {
    'sphere': lambda x: float(np.sum(x ** 2)),
    'outside': lambda x: float(np.sum((x - 1e3) ** 2)),
    'absmix': lambda x: float(np.sum(np.abs(x)) * np.prod(np.cos(x))),
}
runs = [
    (PSO, {'w': 0.7, 'c1': 1.7, 'c2': 1.7}),
    (PSO, {'w': 3.0, 'c1': 9.0, 'c2': 9.0}),
    (SCA, {}),
    (FA, {}),
    (WCA, {}),
    (HS, {}),
]
run_boxes = [([-10, -10], [10, 10]), ([0.999, -1e-3], [1.0, 1e-3]), ([-1e12, 5.0], [1e12, 5.5])]
seed = 0
for cls, hyper in runs:
    for lo, hi in run_boxes:
        for name, obj in objectives.items():
            seed += 1
            np.random.seed(seed)
            seen = []

            wrapped = make_recorder(obj, seen)
            space = SearchSpace(n_agents=6, n_variables=2, n_iterations=8, lower_bound=lo, upper_bound=hi)
            hist = Opytimizer(space=space, optimizer=cls(hyperparams=dict(hyper)),
                              function=Function(pointer=wrapped)).start()
            feed(cls.__name__ + name)
            feed(len(seen))
            for x in seen:
                feed(x)
            feed(hist.agents)
            feed(hist.best_agent)
            feed(space.best_agent.position)
            feed(space.best_agent.fit)
            feed_rng()

print(H.hexdigest())
