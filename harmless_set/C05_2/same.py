import hashlib
import logging
import warnings

import numpy as np

warnings.simplefilter('ignore')
logging.disable(logging.CRITICAL)

_H = hashlib.sha256()
_N = [0]


def enc(x):
    """Canonical, bit-exact textual encoding of a result."""
    if isinstance(x, np.ndarray):
        return 'nd[%s|%s|%s]' % (x.dtype, x.shape, ','.join(enc(v) for v in x.ravel().tolist()))
    if isinstance(x, (bool, np.bool_)):
        return 'b%d' % bool(x)
    if isinstance(x, (float, np.floating)):
        return type(x).__name__ + ':' + float(x).hex()
    if isinstance(x, (int, np.integer)):
        return type(x).__name__ + ':' + str(int(x))
    if isinstance(x, (list, tuple)):
        return type(x).__name__ + '(' + ','.join(enc(v) for v in x) + ')'
    if isinstance(x, dict):
        return '{' + ','.join(enc(k) + '=' + enc(x[k]) for k in sorted(x)) + '}'
    if x is None or isinstance(x, str):
        return repr(x)
    return '<' + type(x).__name__ + '>'


def rng():
    """Digest of the global NumPy random state (detects any change in consumption)."""
    s = np.random.get_state()
    return hashlib.sha256(s[1].tobytes() + repr(s[2:]).encode()).hexdigest()[:16]


def rec(tag, *vals):
    line = tag + ' :: ' + ' ; '.join(v if isinstance(v, str) and v.startswith('!') else enc(v) for v in vals)
    _H.update(line.encode() + b'\n')
    _N[0] += 1


def call(tag, f, *a, **k):
    """Calls f, records its result or its exception (type and message) and the RNG state afterwards."""
    try:
        out = f(*a, **k)
        rec(tag, out, '!rng=' + rng())
        return out
    except BaseException as ex:  # noqa
        rec(tag, '!EXC ' + type(ex).__name__ + ': ' + str(ex), '!rng=' + rng())
        return None


def finish():
    print('records:', _N[0])
    print(_H.hexdigest())

from fractions import Fraction

import opytimizer.math.distribution as d
from opytimizer import Opytimizer
from opytimizer.core.function import Function
from opytimizer.optimizers.cs import CS
from opytimizer.optimizers.fpa import FPA
from opytimizer.spaces.search import SearchSpace

nan, inf = float('nan'), float('inf')
np.random.seed(2024)

BETAS = [0.1, 0.3, 0.5, 1.0, 1.5, 1.99, 2.0, 2.5, 3.0, 1, 2, 7, 1e-3, 1e-8, 50.0, 150.0, 170.0, 170.7, 171.0, 400.0,
         1e308, -0.5, -1.5, -0.1, -1, -1.0, -2, -3.0, -2.5, -3000.5, 0, 0.0, -0.0, nan, inf, -inf, True, False,
         np.float64(1.5), np.float32(1.5), np.int64(2), np.float64(0.0), np.array(1.5), np.array([1.5]),
         Fraction(3, 2), 5e-324]
SIZES = [1, 0, 5, (2, 3), 33]

for bi, beta in enumerate(BETAS):
    for size in SIZES:
        for seed in (0, 7):
            np.random.seed(seed)
            with np.errstate(all='ignore'):
                call('l|b%d=%s|n=%s|s=%d' % (bi, enc(beta), enc(size), seed),
                     d.generate_levy_distribution, beta, size)

# Floating-point errors turned into exceptions (divide by a zero draw power, overflow, invalid)
for beta in (0.1, 1e-3, 1e-8, 1.5, 150.0, -0.5, nan):
    np.random.seed(3)
    with np.errstate(all='raise'):
        call('l|raise|%s' % enc(beta), d.generate_levy_distribution, beta, 6)

# Defaults and keywords
np.random.seed(1)
call('l|defaults', d.generate_levy_distribution)
call('l|kw', d.generate_levy_distribution, size=4, beta=1.2)

# Bad arguments
for name, beta, size in [
        ('str', '1.5', 2), ('none', None, 2), ('complex', 1.5 + 0j, 2), ('list', [1.5], 2), ('arr2', np.array([1.5, 1.2]), 2),
        ('neg-size', 1.5, -1), ('float-size', 1.5, 2.0), ('none-size', 1.5, None), ('str-size', 1.5, 'a'),
        ('zero+badsize', 0, -1), ('str+badsize', 'x', -1)]:
    np.random.seed(5)
    with np.errstate(all='ignore'):
        call('l|bad|' + name, d.generate_levy_distribution, beta, size)

# Each call returns a fresh array
np.random.seed(2)
a = d.generate_levy_distribution(1.5, 5)
b = d.generate_levy_distribution(1.5, 5)
rec('fresh', a is b, np.shares_memory(a, b), a, b, a.flags['OWNDATA'], a.flags['WRITEABLE'])

# Consecutive calls share one stream
np.random.seed(77)
for i in range(5):
    call('l|chain%d' % i, d.generate_levy_distribution, 0.4 * (i + 1), 7)
rec('after-chain', np.random.uniform())


# End-to-end: seeded Cuckoo Search and Flower Pollination runs (both draw Levy flights)
def sphere(x):
    return np.sum(x ** 2)


for seed, beta in ((0, 1.5), (1, 0.7), (2, 1.99)):
    for cls, hp in ((CS, {'alpha': 0.3, 'beta': beta, 'p': 0.25}), (FPA, {'beta': beta, 'eta': 0.2, 'p': 0.6})):
        np.random.seed(seed)
        s = SearchSpace(n_agents=8, n_iterations=25, n_variables=3, lower_bound=[-10, -10, -10],
                        upper_bound=[10, 10, 10])
        o = Opytimizer(space=s, optimizer=cls(hyperparams=hp), function=Function(pointer=sphere))
        h = o.start()
        rec('%s|s=%d' % (cls.__name__, seed), [b for b in h.best_agent], [a.position for a in s.agents],
            [a.fit for a in s.agents], s.best_agent.fit, s.best_agent.position, '!rng=' + rng())

finish()
