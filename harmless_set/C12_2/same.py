"""Digest of seeded GP runs; exercises TreeSpace._initialize_terminals / grow directly and through whole GP runs.

Run as: cd /tmp/harmless/C12 && PYTHONPATH=/tmp/harmless/C12 /venv/bin/python harmlessB/same.py
"""
import hashlib
import logging
import warnings

import numpy as np

logging.disable(logging.CRITICAL)
warnings.filterwarnings('ignore')
np.seterr(all='ignore')

from opytimizer.core.function import Function
from opytimizer.optimizers.gp import GP
from opytimizer.spaces.tree import TreeSpace

H = hashlib.sha256()


def put(x):
    """Feeds any (nested) value into the digest, floats as hex."""
    if isinstance(x, np.ndarray):
        put(('nd', x.shape, str(x.dtype)))
        for v in x.ravel().tolist():
            put(v)
    elif isinstance(x, (float, np.floating)):
        H.update(float(x).hex().encode())
        H.update(b';')
    elif isinstance(x, (list, tuple)):
        H.update(b'[')
        for v in x:
            put(v)
        H.update(b']')
    else:
        H.update(repr(x).encode())
        H.update(b';')


def put_tree(tree):
    """Structure (pre- and post-order), terminal values, properties and position of a tree."""
    for node in tree.pre_order:
        put(repr(node))
        put(node.parent is None)
        if node.type == 'TERMINAL':
            put(node.value)
    put([repr(n) for n in tree.post_order])
    put((tree.n_nodes, tree.n_leaves, tree.min_depth, tree.max_depth))
    put(tree.position)


def put_rng():
    state = np.random.get_state()
    put(state[0])
    put(hashlib.sha256(state[1].tobytes()).hexdigest())
    put(state[2:])


def sphere(x):
    return np.sum(x ** 2)


def shifted(x):
    return np.sum((x - 3.0) ** 2) - 7.0


def sign_changing(x):
    return np.sum(np.sin(x) * x)


def nan_prone(x):
    # NaN / inf positions from EXP, LOG, DIV trees are clipped or stay NaN
    return np.sum(np.sqrt(x - 1.0))


def robust(x):
    # NaN coordinates are mapped to a finite value so that the run completes
    return np.sum(np.nan_to_num(x, nan=5.0, posinf=9.0, neginf=-9.0) ** 2)


ARITH = ['SUM', 'SUB', 'MUL', 'DIV']
UNARY = ['EXP', 'LOG', 'SQRT', 'ABS', 'COS', 'SIN']

CONFIGS = [
    # (space kwargs, GP hyperparams, objective)
    (dict(n_trees=10, n_terminals=2, n_variables=1, n_iterations=15, min_depth=1, max_depth=3,
          functions=ARITH, lower_bound=[0], upper_bound=[10]), {}, sphere),
    (dict(n_trees=12, n_terminals=3, n_variables=2, n_iterations=12, min_depth=2, max_depth=4,
          functions=UNARY, lower_bound=[-5, 0], upper_bound=[5, 10]), {}, shifted),
    (dict(n_trees=8, n_terminals=1, n_variables=3, n_iterations=10, min_depth=1, max_depth=5,
          functions=ARITH + UNARY, lower_bound=[-1, -2, -3], upper_bound=[1, 2, 3]),
     dict(p_reproduction=1, p_mutation=1, p_crossover=1, prunning_ratio=0), sign_changing),
    (dict(n_trees=9, n_terminals=4, n_variables=2, n_iterations=10, min_depth=1, max_depth=4,
          functions=ARITH + UNARY, lower_bound=[-10, -10], upper_bound=[10, 10]),
     dict(p_reproduction=0.5, p_mutation=0.9, p_crossover=0.7, prunning_ratio=1), nan_prone),
    (dict(n_trees=6, n_terminals=2, n_variables=1, n_iterations=8, min_depth=1, max_depth=2,
          functions=['SUM'], lower_bound=[0], upper_bound=[1]),
     dict(p_reproduction=0, p_mutation=0, p_crossover=0, prunning_ratio=0.5), sphere),
    # single tree, depth range collapsed to terminals only
    (dict(n_trees=1, n_terminals=2, n_variables=2, n_iterations=5, min_depth=3, max_depth=3,
          functions=ARITH, lower_bound=[0, 0], upper_bound=[1, 1]),
     dict(p_reproduction=1, p_mutation=1, p_crossover=1, prunning_ratio=0.3), shifted),
    # no functions at all: every tree is one terminal, mutation regrows
    (dict(n_trees=5, n_terminals=3, n_variables=1, n_iterations=6, min_depth=1, max_depth=3,
          functions=[], lower_bound=[-4], upper_bound=[4]),
     dict(p_reproduction=0.4, p_mutation=1, p_crossover=1, prunning_ratio=0), sign_changing),
    # full pruning (crossover / mutation points always 2), every operator always applied
    (dict(n_trees=10, n_terminals=2, n_variables=2, n_iterations=12, min_depth=1, max_depth=5,
          functions=ARITH + UNARY, lower_bound=[-10, -10], upper_bound=[10, 10]),
     dict(p_reproduction=1, p_mutation=1, p_crossover=1, prunning_ratio=1), robust),
    (dict(n_trees=11, n_terminals=2, n_variables=1, n_iterations=12, min_depth=1, max_depth=6,
          functions=ARITH + UNARY, lower_bound=[-10], upper_bound=[10]),
     dict(p_reproduction=0.3, p_mutation=0.5, p_crossover=0.5, prunning_ratio=0), robust),
]


def run(cfg_id, seed, store_best_only):
    kwargs, hyper, objective = CONFIGS[cfg_id]
    np.random.seed(seed)
    space = TreeSpace(**kwargs)
    optimizer = GP(hyperparams=dict(hyper))
    function = Function(pointer=objective)

    put(('start', cfg_id, seed, store_best_only))
    for tree in space.trees:
        put_tree(tree)
    put_tree(space.best_tree)

    # A lone _evaluate call first (initial state of the best agent is fit = max float)
    put(space.best_agent.fit)
    optimizer._evaluate(space, function)
    put(space.best_agent.position)
    put(space.best_agent.fit)
    put_tree(space.best_tree)
    put(any(space.best_tree is t for t in space.trees))

    calls = []

    def hook(opt, spc, fn):
        calls.append(len(spc.trees))

    # NaN fitness makes the tournament selection raise; the exception is part of the behaviour
    history = None
    try:
        history = optimizer.run(space, function, store_best_only=store_best_only,
                                pre_evaluation_hook=hook)
    except Exception as exc:
        put(('raised', type(exc).__name__, str(exc)))

    put(calls)
    if history is not None:
        put(history.best_agent)
        if not store_best_only:
            put(history.agents)
            for tree in history.best_tree:
                put_tree(tree)
    put((len(space.trees), len(space.agents)))
    for tree, agent in zip(space.trees, space.agents):
        put_tree(tree)
        put(agent.position)
        put(agent.fit)
        put(agent.lb)
        put(agent.ub)
    for terminal in space.terminals:
        put(terminal.position)
        put(terminal.lb)
        put(terminal.ub)
    put_tree(space.best_tree)
    put(space.best_agent.position)
    put(space.best_agent.fit)
    put(any(space.best_tree is t for t in space.trees))
    put(any(space.best_agent.position is a.position for a in space.agents))
    put_rng()


def put_terminals(space):
    for terminal in space.terminals:
        put(terminal.position)
        put(terminal.lb)
        put(terminal.ub)


def terminals_directly(seed):
    """Calls _initialize_terminals and grow by hand, also with unusual bounds."""
    np.random.seed(seed)
    space = TreeSpace(n_trees=3, n_terminals=4, n_variables=3, n_iterations=1, min_depth=1, max_depth=4,
                      functions=ARITH + UNARY, lower_bound=[-1, 0, 5], upper_bound=[1, 10, 5])
    put(('direct', seed))
    put_terminals(space)

    # Plain re-initialisation, several times in a row
    for _ in range(3):
        space._initialize_terminals()
        put_terminals(space)
        put_rng()

    # Trees share the terminals' arrays: record which node aliases which terminal
    for depth in ((1, 1), (1, 2), (1, 5), (4, 4), (2, 6)):
        tree = space.grow(*depth)
        put_tree(tree)
        put([[node.value is t.position for t in space.terminals]
             for node in tree.pre_order if node.type == 'TERMINAL'])
        put_terminals(space)
        # older trees see the re-randomised terminals
        for old in space.trees:
            put(old.position)

    # Bounds replaced after construction: inverted, equal, huge and two-dimensional ones
    space.lb = np.array([3.0, -2.0, 1e308])
    space.ub = np.array([-3.0, -2.0, 1e308])
    space._initialize_terminals()
    put_terminals(space)
    space.lb = np.array([[0.0], [-1.0], [2.0]])
    space.ub = np.array([[1.0], [1.0], [2.5]])
    try:
        space._initialize_terminals()
    except Exception as exc:
        put(('raised', type(exc).__name__, str(exc)))
    put_terminals(space)
    put_rng()

    # NaN / infinite bounds: whatever NumPy does (value or exception) must be the same
    for lb, ub in (([np.nan, 0.0, 0.0], [1.0, 1.0, 1.0]), ([0.0, -np.inf, 0.0], [1.0, np.inf, 1.0])):
        space.lb = np.array(lb)
        space.ub = np.array(ub)
        try:
            space._initialize_terminals()
        except Exception as exc:
            put(('raised', type(exc).__name__, str(exc)))
        put_terminals(space)
        put_rng()

    # No terminals left: nothing is drawn
    space.terminals = []
    space._initialize_terminals()
    put_rng()


for seed in (0, 3, 99):
    terminals_directly(seed)

for cfg_id in range(len(CONFIGS)):
    for seed in (0, 1, 7, 12345):
        run(cfg_id, seed, store_best_only=(seed == 7))

print(H.hexdigest())
