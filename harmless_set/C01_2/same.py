"""Digest of seeded Simulated Annealing runs (accept/reject step), incl. warnings, exceptions and the RNG state."""
import hashlib
import logging
import warnings

import numpy as np

logging.disable(logging.CRITICAL)

from opytimizer import Opytimizer
from opytimizer.core.function import Function
from opytimizer.optimizers.sa import SA
from opytimizer.spaces.hyper import HyperSpace
from opytimizer.spaces.search import SearchSpace

H = hashlib.sha256()


def feed(x):
    """Feeds any nested structure of numbers into the digest, bit-exactly."""
    if isinstance(x, np.ndarray):
        H.update(repr((x.shape, str(x.dtype))).encode())
        for v in x.ravel().tolist():
            feed(v)
    elif isinstance(x, (list, tuple)):
        H.update(b'[')
        for v in x:
            feed(v)
        H.update(b']')
    elif isinstance(x, (float, np.floating)):
        H.update(float(x).hex().encode())
    else:
        H.update(repr(x).encode())
    H.update(b';')


def feed_rng():
    st = np.random.get_state()
    H.update(st[1].tobytes())
    feed(int(st[2]))


def make_recorder(obj, seen):
    def wrapped(x):
        seen.append(np.array(x, copy=True))
        return obj(x)
    return wrapped


def constant(v):
    return lambda x: v


def nan_sometimes(x):
    v = float(np.sum(x ** 2))
    return float('nan') if int(abs(v) * 1e6) % 5 == 0 else v


def inf_sometimes(x):
    v = float(np.sum(x))
    return float('inf') if int(abs(v) * 1e6) % 4 == 0 else (float('-inf') if int(abs(v) * 1e6) % 7 == 0 else v)


objectives = {
    'sphere': lambda x: float(np.sum(x ** 2)),
    'neg_huge': lambda x: float(-1e300 * np.sum(np.abs(x))),
    'steps': lambda x: float(np.floor(np.sum(x) * 3)),  # many ties: a.fit == agent.fit
    'const': lambda x: 1.0,
    'nan_sometimes': nan_sometimes,
    'inf_sometimes': inf_sometimes,
    'array1': lambda x: np.sum(x ** 2, axis=0),  # 1-element array as fitness
    'npfloat32': lambda x: np.float32(np.sum(np.sin(x))),
    'outside': lambda x: float(np.sum((x - 1e3) ** 2)),
}
hypers = [{}, {'T': 100.0, 'beta': 0.999}, {'T': 1e-300, 'beta': 0.5}, {'T': 1e300, 'beta': 0.1},
          {'T': 0.5, 'beta': 0.9}]
boxes = [([-10, -10, -10], [10, 10, 10]), ([0.0, -1e-3, 5.0], [1e-2, 1e-3, 5.0]), ([-1e12, 0, -0.05], [1e12, 1, 0.05])]

seed = 0
for hyper in hypers:
    for lo, hi in boxes:
        for name, obj in objectives.items():
            seed += 1
            np.random.seed(seed)
            seen = []
            space = SearchSpace(n_agents=5, n_variables=3, n_iterations=12, lower_bound=lo, upper_bound=hi)
            opt = SA(hyperparams=dict(hyper))
            with warnings.catch_warnings(record=True) as caught:
                warnings.simplefilter('always')
                try:
                    hist = Opytimizer(space=space, optimizer=opt, function=Function(pointer=make_recorder(obj, seen))).start()
                    feed(hist.agents)
                    feed(hist.best_agent)
                except Exception as ex:  # pylint: disable=broad-except
                    feed(type(ex).__name__)
                    feed(str(ex))
            feed(name)
            feed(sorted((w.category.__name__, str(w.message)) for w in caught))
            feed(len(caught))
            feed(len(seen))
            for x in seen:
                feed(x)
            for a in space.agents:
                feed(a.position)
                feed(np.asarray(a.fit, dtype=float))
                feed(type(a.fit).__name__)
            feed(space.best_agent.position)
            feed(np.asarray(space.best_agent.fit, dtype=float))
            feed(opt.T)
            feed_rng()

# hypercomplex space and multi-valued fitness (ambiguous truth value) cases
for seed, (name, obj) in enumerate([('hyper', lambda x: float(np.sum(np.linalg.norm(x, axis=1)))),
                                    ('array2', lambda x: np.array([np.sum(x), 1.0]))]):
    np.random.seed(900 + seed)
    seen = []
    space = HyperSpace(n_agents=4, n_variables=2, n_dimensions=4, n_iterations=10,
                       lower_bound=[-5, 0], upper_bound=[5, 3])
    opt = SA(hyperparams={'T': 2.0, 'beta': 0.8})
    with warnings.catch_warnings(record=True) as caught:
        warnings.simplefilter('always')
        try:
            hist = Opytimizer(space=space, optimizer=opt, function=Function(pointer=make_recorder(obj, seen))).start()
            feed(hist.agents)
            feed(hist.best_agent)
        except Exception as ex:  # pylint: disable=broad-except
            feed(type(ex).__name__)
            feed(str(ex))
    feed(name)
    feed(len(caught))
    feed(len(seen))
    for x in seen:
        feed(x)
    for a in space.agents:
        feed(a.position)
    feed(opt.T)
    feed_rng()

# direct _update calls on hand-made agents: exact ties and NaN fitness on either side
from opytimizer.core.agent import Agent
for seed, (cur, newv) in enumerate([(1.0, 1.0), (float('nan'), 0.0), (0.0, float('nan')), (float('inf'), float('inf')),
                                     (float('-inf'), float('-inf')), (1e308, -1e308), (-1e308, 1e308), (0.0, -0.0)]):
    np.random.seed(1000 + seed)
    agents = []
    for _ in range(3):
        a = Agent(n_variables=2, n_dimensions=1)
        a.position = np.random.uniform(0, 1, size=(2, 1))
        a.fit = cur
        agents.append(a)
    opt = SA(hyperparams={'T': 1.0, 'beta': 0.5})
    with warnings.catch_warnings(record=True) as caught:
        warnings.simplefilter('always')
        opt._update(agents, Function(pointer=constant(newv)))
    feed(len(caught))
    feed(sorted(str(w.message) for w in caught))
    for a in agents:
        feed(a.position)
        feed(a.fit)
    feed(opt.T)
    feed_rng()

print(H.hexdigest())
