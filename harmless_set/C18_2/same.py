"""Digest of generate_levy_distribution over seeded inputs and edge cases."""
import hashlib
import warnings

import numpy as np

import opytimizer.math.distribution as d

warnings.simplefilter('ignore')
h = hashlib.sha256()


def put(*items):
    for it in items:
        h.update(repr(it).encode())
        h.update(b'|')


def put_array(a):
    put(type(a).__name__)
    a = np.asarray(a)
    put(a.dtype.str, a.shape)
    for x in a.ravel().tolist():
        put(x.hex() if isinstance(x, float) else x)


def rng_mark():
    st = np.random.get_state()
    put(hashlib.sha256(st[1].tobytes()).hexdigest(), st[2], st[3], float(st[4]).hex())


def attempt(seed, beta, size):
    np.random.seed(seed)
    try:
        out = d.generate_levy_distribution(beta, size)
        put('ok', seed, repr(beta), repr(size))
        put_array(out)
    except Exception as e:  # noqa
        put('exc', seed, repr(beta), repr(size), type(e).__name__, str(e))
    rng_mark()


betas = [0.1, 0.3, 0.5, 1.0, 1.5, 1.99, 2.0, 2, 1, 1e-3, 0.05, 2.5, 3.0, 4.0, 170.0,
         np.float64(1.5), np.float32(1.5), np.int64(1),
         # outside the domain / raising or complex-valued
         0.0, 0, -0.5, -1.0, -1, -2.0, 1e-320, 200.0, float('nan'), float('inf'),
         float('-inf'), None, 'a', [1.5], np.array([1.5]), np.array([0.5, 1.5]), 1.5 + 0j]
sizes = [1, 0, 2, 5, 33, (2, 3), (0,), np.int64(4), None]

for seed in range(8):
    for b in betas:
        for s in sizes:
            attempt(seed, b, s)

for s in [-1, 2.0, 'a']:
    attempt(3, 1.5, s)

# defaults, consecutive calls on one stream
np.random.seed(99)
for _ in range(25):
    put_array(d.generate_levy_distribution())
    put_array(d.generate_levy_distribution(beta=1.5, size=4))
    put_array(d.generate_levy_distribution(size=2))
rng_mark()

print(h.hexdigest())
