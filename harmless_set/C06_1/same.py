"""Behaviour digest for the space construction / limit enforcement code.

Run as:
    cd /tmp/harmless/C06 && PYTHONPATH=/tmp/harmless/C06 /venv/bin/python harmlessA/same.py

Prints one sha256 digest over: positions / bounds of freshly built spaces (seeded),
positions before and after check_limits() (Agent, SearchSpace, HyperSpace), tree spaces
(agents, terminals, trees), typed errors of the constructors / setters, and the state
of the global NumPy random stream after every step. The digest must not depend on
whether the harmless change is applied.
"""

import hashlib
import itertools
import logging
import os
import warnings

import numpy as np

logging.disable(logging.CRITICAL)
warnings.simplefilter('ignore')

from opytimizer.core.agent import Agent
from opytimizer.core.space import Space
from opytimizer.spaces.hyper import HyperSpace
from opytimizer.spaces.search import SearchSpace
from opytimizer.spaces.tree import TreeSpace

H = hashlib.sha256()
# Set SAME_TRACE=<file> to dump the running digest after every item (to locate a difference)
TRACE = open(os.environ['SAME_TRACE'], 'w') if os.environ.get('SAME_TRACE') else None
N_ITEMS = [0]


def feed(tag, obj):
    """Feeds a tagged object into the digest (bit-exact for floats and arrays)."""

    N_ITEMS[0] += 1
    H.update(f'<{tag}>'.encode())
    _feed(obj)
    if TRACE is not None:
        TRACE.write(f'{N_ITEMS[0]} {tag} {H.hexdigest()[:16]}\n')


def _feed(obj):
    if isinstance(obj, np.ndarray):
        H.update(f'nd:{obj.dtype.str}:{obj.shape}:'.encode())
        if obj.dtype == object:
            for o in obj.ravel():
                _feed(o)
        elif obj.dtype.char in 'gG':
            # long double carries padding bytes: feed a printed form instead
            H.update(','.join(np.format_float_scientific(o, unique=True) for o in obj.ravel()).encode())
        else:
            H.update(np.ascontiguousarray(obj).tobytes())
    elif isinstance(obj, (float, np.floating)):
        H.update(f'f:{type(obj).__name__}:{float(obj).hex()}'.encode())
    elif isinstance(obj, (bool, np.bool_)):
        H.update(f'b:{bool(obj)}'.encode())
    elif isinstance(obj, (int, np.integer)):
        H.update(f'i:{type(obj).__name__}:{int(obj)}'.encode())
    elif isinstance(obj, (list, tuple)):
        H.update(f'l{len(obj)}['.encode())
        for o in obj:
            _feed(o)
        H.update(b']')
    elif isinstance(obj, BaseException):
        H.update(f'exc:{type(obj).__module__}.{type(obj).__name__}:{obj}'.encode())
    elif obj is None:
        H.update(b'none')
    else:
        H.update(f's:{obj}'.encode())


def rng_state():
    """Digest of the global NumPy random stream (order / amount of consumption)."""

    st = np.random.get_state()
    return [st[0], np.asarray(st[1]), int(st[2]), int(st[3]), float(st[4])]


def attempt(tag, fn):
    """Runs fn, feeding either its result or the exception it raised."""

    try:
        out = fn()
    except BaseException as exc:  # pylint: disable=broad-except
        feed(tag + ':raised', exc)
        return None
    feed(tag + ':ok', out)
    return out


def agent_view(agent):
    return [type(agent.position).__name__, np.asarray(agent.position), np.asarray(agent.lb),
            np.asarray(agent.ub), agent.fit, agent.n_variables, agent.n_dimensions]


def space_view(space):
    out = [space.n_agents, space.n_variables, space.n_dimensions, space.n_iterations,
           space.built, len(space.agents), np.asarray(space.lb), np.asarray(space.ub)]
    out += [agent_view(a) for a in space.agents]
    out += [agent_view(space.best_agent)]
    return out


def tree_view(node):
    if node is None:
        return None
    return [repr(node), node.value if node.value is None else np.asarray(node.value),
            tree_view(node.left), tree_view(node.right),
            None if node.parent is None else repr(node.parent)]


SPECIAL = np.array([-np.inf, np.inf, np.nan, -0.0, 0.0, 1.0, -1.0, 5e-324, -5e-324,
                    1.7976931348623157e308, -1.7976931348623157e308, 0.5, 1e16, -1e16])

BOUNDS = [
    ([0], [1]),
    ([0.0], [0.0]),
    ([-0.0], [0.0]),
    ([0.0], [-0.0]),
    ([-10, 0.5], [10, 0.5]),
    ([-1e-300, -1e300, 3], [1e-300, 1e300, 3]),
    ([0, -5, 2, -1e9], [1, 5, 2, 1e9]),
    ([-1.5, 0.25, 1e-9, -3.0, 7.0], [1.5, 0.75, 1e-8, -3.0, 7.5]),
    ([1, 2, 3, 4, 5, 6, 7], [2, 4, 6, 8, 10, 12, 14]),
]


def positions_for(rs, lb, ub, n_dim, kind):
    """Positions in range, on the bounds, beyond them, and special values."""

    lb = np.asarray(lb, dtype=float)[:, None]
    ub = np.asarray(ub, dtype=float)[:, None]
    n = lb.shape[0]
    if kind == 'inside':
        return lb + (ub - lb) * rs.uniform(0, 1, (n, n_dim))
    if kind == 'on_lb':
        return lb + np.zeros((n, n_dim))
    if kind == 'on_ub':
        return ub + np.zeros((n, n_dim))
    if kind == 'beyond':
        return lb + (ub - lb) * rs.uniform(-2, 3, (n, n_dim)) + rs.choice([-1.0, 0.0, 1.0], (n, n_dim))
    if kind == 'special':
        return rs.choice(SPECIAL, (n, n_dim))
    if kind == 'mixed':
        pos = lb + (ub - lb) * rs.uniform(-1, 2, (n, n_dim))
        mask = rs.uniform(0, 1, (n, n_dim)) < 0.3
        pos[mask] = rs.choice(SPECIAL, int(mask.sum()))
        return pos
    raise ValueError(kind)


KINDS = ['inside', 'on_lb', 'on_ub', 'beyond', 'special', 'mixed']


def section_agent():
    """Agent.check_limits on its own bounds."""

    rs = np.random.RandomState(101)
    for (lb, ub), n_dim, kind in itertools.product(BOUNDS, [1, 3, 9], KINDS):
        n = len(lb)
        agent = Agent(n_variables=n, n_dimensions=n_dim)
        agent.lb = np.asarray(lb, dtype=float)
        agent.ub = np.asarray(ub, dtype=float)
        agent.position = positions_for(rs, lb, ub, n_dim, kind)
        before = agent.position.copy()
        ident = id(agent.position)
        attempt('agent.cl', agent.check_limits)
        feed('agent.same_obj', ident == id(agent.position))
        feed('agent.before', before)
        feed('agent.after', agent_view(agent))
        once = agent.position.copy()
        attempt('agent.cl2', agent.check_limits)
        feed('agent.idem', [once, agent.position])

    # Unusual but accepted states: integer bounds, other dtypes, short / long bound vectors, 1-D positions
    for dtype in [np.float32, np.float16, np.int64, np.int8, np.uint8, np.longdouble, bool]:
        agent = Agent(n_variables=3, n_dimensions=4)
        agent.position = (rs.uniform(-3, 3, (3, 4)) * 2).astype(dtype)
        agent.lb = np.array([-1, 0, 1])
        agent.ub = np.array([1.5, 0.5, 1.0])
        attempt(f'agent.dtype.{np.dtype(dtype).str}', agent.check_limits)
        feed('agent.dtype.after', agent_view(agent))
    agent = Agent(n_variables=4, n_dimensions=2)
    agent.position = rs.uniform(-3, 3, (4, 2))
    agent.lb = np.array([-1.0, 0.0])
    agent.ub = np.array([1.0, 0.5, 2.0])
    attempt('agent.short', agent.check_limits)
    feed('agent.short.after', agent_view(agent))
    agent = Agent(n_variables=2, n_dimensions=2)
    agent.position = rs.uniform(-3, 3, (2, 2))
    agent.lb = np.array([-1.0, 0.0, 0.0])
    agent.ub = np.array([1.0, 0.5, 2.0])
    attempt('agent.long', agent.check_limits)
    feed('agent.long.after', agent_view(agent))
    agent = Agent(n_variables=3, n_dimensions=1)
    agent.position = rs.uniform(-3, 3, 3)
    attempt('agent.1d', agent.check_limits)
    feed('agent.1d.after', agent_view(agent))
    agent = Agent(n_variables=2, n_dimensions=2)
    agent.position = rs.uniform(-3, 3, (2, 2))
    agent.lb = np.array([1.0, np.nan])
    agent.ub = np.array([-1.0, 0.5])
    attempt('agent.crossed_nan', agent.check_limits)
    feed('agent.crossed_nan.after', agent_view(agent))
    agent = Agent(n_variables=2, n_dimensions=2)
    agent.lb = [0.0, -1.0]
    agent.ub = [1, 2]
    agent.position = rs.uniform(-3, 3, (2, 2))
    attempt('agent.listbounds', agent.check_limits)
    feed('agent.listbounds.after', agent_view(agent))


def section_search():
    """SearchSpace construction and check_limits."""

    rs = np.random.RandomState(202)
    for seed, ((lb, ub), n_agents) in enumerate(itertools.product(BOUNDS, [1, 2, 5])):
        np.random.seed(1000 + seed)
        n = len(lb)
        space = SearchSpace(n_agents=n_agents, n_variables=n, n_iterations=3,
                            lower_bound=lb, upper_bound=ub)
        feed('search.view', space_view(space))
        feed('search.rng', rng_state())
        # Fresh spaces are feasible: enforcing limits must not move anything
        attempt('search.cl0', space.check_limits)
        feed('search.view0', space_view(space))
        for kind in KINDS:
            for agent in space.agents:
                agent.position = positions_for(rs, lb, ub, 1, kind)
            feed('search.before', [a.position.copy() for a in space.agents])
            attempt('search.cl', space.check_limits)
            feed('search.after', space_view(space))
            attempt('search.cl2', space.check_limits)
            feed('search.idem', space_view(space))
            # Agents clip themselves to the bounds they carry
            for agent in space.agents:
                agent.position = positions_for(rs, lb, ub, 1, kind)
                attempt('search.agent.cl', agent.check_limits)
            feed('search.agent.after', space_view(space))
        feed('search.rng.end', rng_state())

    # Wider position rows and positions of other dtypes pushed into a space
    np.random.seed(7)
    space = SearchSpace(n_agents=3, n_variables=4, n_iterations=2,
                        lower_bound=[-1, 0, 2, -8], upper_bound=[1, 0, 2.5, 8])
    for dtype in [np.float64, np.float32, np.int32]:
        for agent in space.agents:
            agent.position = (rs.uniform(-9, 9, (4, 6))).astype(dtype)
        attempt('search.wide.cl', space.check_limits)
        feed('search.wide.after', space_view(space))
    # Space bounds replaced after construction (agents keep their own)
    space.lb = np.array([-2.0, -2.0, -2.0, -2.0])
    space.ub = np.array([2, 2, 2, 2])
    for agent in space.agents:
        agent.position = rs.uniform(-9, 9, (4, 1))
    attempt('search.rebound.cl', space.check_limits)
    feed('search.rebound.after', space_view(space))
    for agent in space.agents:
        attempt('search.rebound.agent.cl', agent.check_limits)
    feed('search.rebound.agent.after', space_view(space))
    # Infinite bounds: sampling fails inside the constructor
    np.random.seed(8)
    attempt('search.infbounds', lambda: space_view(SearchSpace(
        n_agents=2, n_variables=2, lower_bound=[-np.inf, 0], upper_bound=[np.inf, 1])))
    feed('search.infbounds.rng', rng_state())


def section_hyper():
    """HyperSpace construction (unit box) and check_limits."""

    rs = np.random.RandomState(303)
    for seed, ((lb, ub), n_agents, n_dim) in enumerate(itertools.product(BOUNDS, [1, 3], [1, 2, 4, 8])):
        np.random.seed(2000 + seed)
        n = len(lb)
        space = HyperSpace(n_agents=n_agents, n_variables=n, n_dimensions=n_dim, n_iterations=3,
                           lower_bound=lb, upper_bound=ub)
        feed('hyper.view', space_view(space))
        feed('hyper.rng', rng_state())
        attempt('hyper.cl0', space.check_limits)
        feed('hyper.view0', space_view(space))
        for kind in KINDS:
            for agent in space.agents:
                agent.position = positions_for(rs, [0.0] * n, [1.0] * n, n_dim, kind)
            feed('hyper.before', [a.position.copy() for a in space.agents])
            attempt('hyper.cl', space.check_limits)
            feed('hyper.after', space_view(space))
            attempt('hyper.cl2', space.check_limits)
            feed('hyper.idem', space_view(space))
        feed('hyper.rng.end', rng_state())

    # Bound vectors of unequal length / more rows than bounds, set after construction
    np.random.seed(9)
    space = HyperSpace(n_agents=2, n_variables=3, n_dimensions=2, lower_bound=[0, 0, 0], upper_bound=[1, 1, 1])
    for agent in space.agents:
        agent.position = rs.uniform(-3, 3, (5, 2))
    attempt('hyper.rows5.cl', space.check_limits)
    feed('hyper.rows5.after', space_view(space))
    space.n_variables = 2
    space.ub = np.array([1.0, 1.0])
    for agent in space.agents:
        agent.position = rs.uniform(-3, 3, (3, 2))
    attempt('hyper.mismatch.cl', space.check_limits)
    feed('hyper.mismatch.after', space_view(space))
    space.lb = np.array([[0.0, 0.0], [0.0, 0.0]])
    for agent in space.agents:
        agent.position = rs.uniform(-3, 3, (3, 2))
    attempt('hyper.lb2d.cl', space.check_limits)
    feed('hyper.lb2d.after', space_view(space))
    for dtype in [np.float32, np.int16, bool]:
        for agent in space.agents:
            agent.position = (rs.uniform(-3, 3, (3, 2))).astype(dtype)
        attempt('hyper.dtype.cl', space.check_limits)
        feed('hyper.dtype.after', space_view(space))
    space.agents = []
    attempt('hyper.noagents.cl', space.check_limits)


def section_tree():
    """TreeSpace construction: agents, terminals and trees; grow() re-samples terminals."""

    functions_sets = [[], ['SUM'], ['SUM', 'SUB', 'MUL', 'DIV'], ['EXP', 'SQRT', 'LOG', 'ABS', 'SIN', 'COS', 'SUM']]
    cases = itertools.product(BOUNDS[::2], [(1, 1), (2, 3), (4, 2)], [(1, 1), (1, 3), (2, 5)], functions_sets)
    for seed, ((lb, ub), (n_trees, n_terminals), (dmin, dmax), functions) in enumerate(cases):
        np.random.seed(3000 + seed)
        n = len(lb)
        space = TreeSpace(n_trees=n_trees, n_terminals=n_terminals, n_variables=n, n_iterations=2,
                          min_depth=dmin, max_depth=dmax, functions=functions,
                          lower_bound=lb, upper_bound=ub)
        feed('tree.view', space_view(space))
        feed('tree.terminals', [agent_view(t) for t in space.terminals])
        feed('tree.trees', [tree_view(t) for t in space.trees])
        feed('tree.best', tree_view(space.best_tree))
        feed('tree.trees.pos', [t.position for t in space.trees])
        feed('tree.rng', rng_state())
        # Re-initialisation entry points
        attempt('tree.init_agents', space._initialize_agents)
        feed('tree.view2', space_view(space))
        feed('tree.rng2', rng_state())
        attempt('tree.init_terminals', space._initialize_terminals)
        feed('tree.terminals2', [agent_view(t) for t in space.terminals])
        feed('tree.rng3', rng_state())
        tree = attempt('tree.grow', lambda: tree_view(space.grow(dmin, dmax)))
        feed('tree.rng4', rng_state())
        # Agents / terminals carry the bounds: clipping them is a no-op on fresh samples
        for a in space.agents + space.terminals:
            attempt('tree.agent.cl', a.check_limits)
        feed('tree.view3', space_view(space))
        feed('tree.terminals3', [agent_view(t) for t in space.terminals])

    # Failure in the middle of sampling: how far the stream / the bounds copy got
    np.random.seed(11)
    space = TreeSpace(n_trees=2, n_terminals=2, n_variables=3, min_depth=1, max_depth=2,
                      functions=['SUM'], lower_bound=[0, 1, 2], upper_bound=[1, 2, 3])
    space.lb = np.array([0.0, -np.inf, 5.0])
    space.ub = np.array([1.0, np.inf, 6.0])
    attempt('tree.inf.init_agents', space._initialize_agents)
    feed('tree.inf.view', space_view(space))
    feed('tree.inf.rng', rng_state())
    attempt('tree.inf.init_terminals', space._initialize_terminals)
    feed('tree.inf.terminals', [agent_view(t) for t in space.terminals])
    feed('tree.inf.rng2', rng_state())
    space.lb = np.array([[0.0, 0.5], [1.0, 1.5], [2.0, 2.5]])
    attempt('tree.lb2d.init_agents', space._initialize_agents)
    feed('tree.lb2d.view', space_view(space))
    feed('tree.lb2d.rng', rng_state())
    attempt('tree.lb2d.init_terminals', space._initialize_terminals)
    feed('tree.lb2d.terminals', [agent_view(t) for t in space.terminals])
    feed('tree.lb2d.rng2', rng_state())


def section_errors():
    """Typed errors of constructors and setters."""

    bad_sizes = [0, -1, 1.0, 2.5, '3', None, True, False, np.int64(3), [2]]
    for cls, name in [(Space, 'space'), (SearchSpace, 'search'), (HyperSpace, 'hyper')]:
        for field in ['n_agents', 'n_variables', 'n_dimensions', 'n_iterations']:
            if field == 'n_dimensions' and cls is SearchSpace:
                continue
            for bad in bad_sizes:
                np.random.seed(5)
                kwargs = {'n_agents': 2, 'n_variables': 2, 'n_iterations': 2,
                          'lower_bound': [0, 0], 'upper_bound': [1, 1]}
                kwargs[field] = bad
                if field == 'n_variables' and isinstance(bad, (int, np.integer)) and not isinstance(bad, bool) and bad > 0:
                    kwargs['lower_bound'] = [0] * int(bad)
                    kwargs['upper_bound'] = [1] * int(bad)
                attempt(f'err.{name}.{field}', lambda: space_view(cls(**kwargs)))
                feed('err.rng', rng_state())
    for field in ['n_trees', 'n_terminals', 'n_variables', 'n_iterations', 'min_depth', 'max_depth']:
        for bad in bad_sizes:
            np.random.seed(6)
            kwargs = {'n_trees': 2, 'n_terminals': 2, 'n_variables': 2, 'n_iterations': 2,
                      'min_depth': 1, 'max_depth': 2, 'functions': ['SUM'],
                      'lower_bound': [0, 0], 'upper_bound': [1, 1]}
            kwargs[field] = bad
            attempt(f'err.tree.{field}', lambda: space_view(TreeSpace(**kwargs)))
            feed('err.rng', rng_state())
    bad_bounds = [([0], [1, 1]), ([0, 0], [1]), ([0, 0, 0], [1, 1, 1]), ([], []), (0, 1),
                  ([[0, 0]], [[1, 1]]), ([[0], [0]], [[1], [1]]), (None, None), ((0, 0), (1, 1)),
                  (np.array([0, 0]), np.array([1, 1])), (['a', 'b'], [1, 1]), ([1, 1], [0, 0])]
    for cls, name in [(SearchSpace, 'search'), (HyperSpace, 'hyper'), (TreeSpace, 'tree')]:
        for lb, ub in bad_bounds:
            np.random.seed(4)
            kwargs = {'n_variables': 2, 'lower_bound': lb, 'upper_bound': ub}
            if cls is TreeSpace:
                kwargs.update(n_trees=2, n_terminals=2, functions=['SUM'])
            else:
                kwargs.update(n_agents=2)
            attempt(f'err.{name}.bounds', lambda: space_view(cls(**kwargs)))
            feed('err.rng', rng_state())
    space = Space(n_agents=2, n_variables=2)
    for value in [[0, 0], np.array([0]), np.array([0, 0, 0]), np.array(0.0), np.array([[0], [0]]), np.array([0.5, 0.5])]:
        attempt('err.space.lb', lambda: setattr(space, 'lb', value))
        attempt('err.space.ub', lambda: setattr(space, 'ub', value))
        feed('err.space.lbub', [space.lb, space.ub])
    attempt('err.space.init_agents', space._initialize_agents)
    attempt('err.space.agents', lambda: setattr(space, 'agents', ()))
    attempt('err.space.best', lambda: setattr(space, 'best_agent', None))
    for bad in bad_sizes:
        attempt('err.agent.nv', lambda: agent_view(Agent(n_variables=bad)))
        attempt('err.agent.nd', lambda: agent_view(Agent(n_dimensions=bad)))


def main():
    section_agent()
    section_search()
    section_hyper()
    section_tree()
    section_errors()
    print(f'items={N_ITEMS[0]}')
    print(f'digest={H.hexdigest()}')


if __name__ == '__main__':
    main()
