"""Exercises opytimizer.functions.weighted.WeightedFunction on seeded inputs
and prints a digest as the last line."""

import functools
import hashlib
import warnings

import numpy as np

import opytimizer.math.benchmark as b
from opytimizer import Opytimizer
from opytimizer.core.function import Function
from opytimizer.functions.weighted import WeightedFunction
from opytimizer.optimizers.pso import PSO
from opytimizer.spaces.search import SearchSpace

warnings.simplefilter('ignore')
np.seterr(all='ignore')

h = hashlib.sha256()


def rec(*items):
    for it in items:
        h.update(repr(it).encode())
        h.update(b'|')


def enc(out):
    if isinstance(out, (bool, int, str, type(None))):
        return (type(out).__name__, repr(out))
    a = np.asarray(out)
    if a.dtype.kind == 'c':
        vals = [(float(z.real).hex(), float(z.imag).hex()) for z in a.ravel()]
    elif a.dtype.kind in 'OUS':
        vals = [repr(z) for z in a.ravel()]
    else:
        vals = [float(z).hex() for z in a.ravel()]
    return (type(out).__name__, str(a.dtype), a.shape, vals)


def attempt(tag, fn):
    try:
        rec(tag, 'ok', enc(fn()))
    except BaseException as ex:  # noqa
        rec(tag, 'exc', type(ex).__name__, str(ex))


calls = []


def square(x):
    calls.append('square')
    return x ** 2


def cube(x):
    calls.append('cube')
    return x ** 3


def boom(x):
    calls.append('boom')
    raise RuntimeError('boom')


def ident(x):
    calls.append('ident')
    return x


def as_int(x):
    calls.append('as_int')
    return np.asarray(x).astype(int)


class Callable:
    def __call__(self, x):
        calls.append('Callable')
        return np.sum(x) + 1.0


rng = np.random.RandomState(31)

# 1. Plain evaluation on scalars and arrays, seeded weights and points
for k in range(10):
    w = [float(v) for v in rng.uniform(-1, 2, 3)]
    wf = WeightedFunction(functions=[square, cube, b.sphere], weights=w)
    rec('shape', type(wf.pointer).__name__, wf.pointer.__name__, wf.built,
        [type(f).__name__ for f in wf.functions], wf.weights is w)
    for x in (0, 2, -3, 1.5, float(rng.uniform(-5, 5)), rng.uniform(-5, 5, 4), rng.uniform(-1, 1, (2, 3))):
        attempt(f'eval/{k}', lambda: wf.pointer(x))
    rec('calls', tuple(calls))
    del calls[:]

# 2. The result never aliases the input or something a function returned
x = rng.uniform(-1, 1, 5)
keep = x.copy()
wf = WeightedFunction(functions=[ident, ident], weights=[1, 1])
out = wf.pointer(x)
rec('alias', out is x, np.shares_memory(out, x), bool((x == keep).all()), enc(out))
wf = WeightedFunction(functions=[ident], weights=[1.0])
out = wf.pointer(x)
rec('alias1', out is x, np.shares_memory(out, x), bool((x == keep).all()), enc(out))

# 3. Edge cases: empty, unequal lengths, exceptions, dtype clashes, odd weights
edge = {
    'empty': ([], []),
    'no-weights': ([square, cube], []),
    'more-weights': ([square], [0.5, 0.25, 0.125]),
    'more-functions': ([square, cube, boom], [0.5, 0.25]),
    'boom-first': ([boom, square], [1.0, 1.0]),
    'boom-last': ([square, boom], [1.0, 1.0]),
    'int-then-float': ([as_int, square], [1, 0.5]),
    'float-then-int': ([square, as_int], [0.5, 1]),
    'nan-weight': ([square, cube], [float('nan'), 1.0]),
    'inf-weight': ([square, cube], [float('inf'), -float('inf')]),
    'array-weight': ([square, cube], [np.array([1.0, 2.0, 3.0]), 2.0]),
    'str-weight': ([square], ['ab']),
    'none-weight': ([square], [None]),
    'callable-object': ([Callable(), functools.partial(np.multiply, 2.0)], [0.25, 0.75]),
    'benchmarks': ([b.sphere, b.exponential, b.rastringin], [0.2, 0.3, 0.5]),
}
for name, (fs, ws) in edge.items():
    del calls[:]
    try:
        wf = WeightedFunction(functions=fs, weights=ws)
    except BaseException as ex:  # noqa
        rec(f'edge/{name}', 'ctor-exc', type(ex).__name__, str(ex))
        continue
    for x in (3, 0.5, np.array([1.0, -2.0, 0.5]), np.array([1, 2, 3])):
        attempt(f'edge/{name}', lambda: wf.pointer(x))
    rec('calls', tuple(calls))

# 4. Wrong constructor arguments
for name, kw in {
    'functions-none': dict(functions=None, weights=[]),
    'weights-none': dict(functions=[], weights=None),
    'not-callable': dict(functions=[1], weights=[1.0]),
    'two-args': dict(functions=[lambda x, y: x], weights=[1.0]),
    'tuple': dict(functions=(square,), weights=[1.0]),
}.items():
    attempt(f'ctor/{name}', lambda: WeightedFunction(**kw).pointer(1.0))

# 5. Functions and weights replaced after building are seen by the same pointer
wf = WeightedFunction(functions=[square, cube], weights=[0.5, 0.5])
p = wf.pointer
attempt('late/0', lambda: p(2.0))
wf.weights = [2.0, 3.0]
attempt('late/1', lambda: p(2.0))
wf.functions = [Function(pointer=cube)]
attempt('late/2', lambda: p(2.0))
wf.weights.append(7.0)
wf.functions.append(Function(pointer=square))
attempt('late/3', lambda: p(2.0))
rec('late/same-pointer', wf.pointer is p)
p2 = wf._create_strategy()
rec('late/new-strategy', p2 is p, p2.__name__, p2(2.0) == p(2.0))
wf.functions = [1, 2]
attempt('late/4', lambda: p(2.0))

# 6. Two objects are independent
w1 = WeightedFunction(functions=[square], weights=[1.0])
w2 = WeightedFunction(functions=[cube], weights=[2.0])
rec('indep', enc(w1.pointer(3.0)), enc(w2.pointer(3.0)), w1.pointer is w2.pointer)

# 7. Wrapped once more by Function, and used in a short seeded optimisation
wf = WeightedFunction(functions=[b.sphere, b.exponential], weights=[0.5, 0.5])
f = Function(pointer=wf.pointer)
for k in range(5):
    attempt(f'wrapped/{k}', lambda: f.pointer(rng.uniform(-2, 2, (3, 1))))

for seed in (0, 9):
    np.random.seed(seed)
    s = SearchSpace(n_agents=6, n_iterations=8, n_variables=3,
                    lower_bound=[-5, -5, -5], upper_bound=[5, 5, 5])
    o = Opytimizer(space=s, optimizer=PSO(), function=WeightedFunction(
        functions=[b.sphere, b.rastringin], weights=[0.3, 0.7]))
    o.start()
    rec(f'run/{seed}', enc(s.best_agent.position), enc(s.best_agent.fit),
        [enc(a.position) for a in s.agents], [enc(a.fit) for a in s.agents],
        float(np.random.uniform()).hex())

print(h.hexdigest())
