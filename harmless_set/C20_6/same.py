"""Exercises HS._update and its helper _generate_new_harmony on seeded inputs; last line is a digest."""
import hashlib
import logging

import numpy as np

logging.disable(logging.CRITICAL)

from opytimizer.core.function import Function
from opytimizer.optimizers.hs import HS
from opytimizer.spaces.search import SearchSpace

H = hashlib.sha256()


def feed(x):
    if isinstance(x, np.ndarray):
        H.update(('A' + str(x.shape) + str(x.dtype)).encode())
        for v in x.ravel().tolist():
            feed(v)
    elif isinstance(x, (float, np.floating)):
        H.update(('F' + float(x).hex()).encode())
    elif isinstance(x, (list, tuple)):
        H.update(('L%d' % len(x)).encode())
        for v in x:
            feed(v)
    else:
        H.update(('O' + repr(x)).encode())


def feed_rng():
    st = np.random.get_state()
    H.update(st[1].tobytes())
    H.update(str(st[2:]).encode())


def sphere(x):
    return np.sum(x ** 2)


def shifted(x):
    return float(np.sum(np.abs(x - 0.3)) + np.prod(np.cos(x)))


def nan_fn(x):
    return float('nan')


def boom(x):
    raise ZeroDivisionError('boom')


def snapshot(space):
    for a in space.agents:
        feed(a.position)
        feed(a.fit)
    feed(space.best_agent.position)
    feed(space.best_agent.fit)


def make(seed, n_agents, n_variables, lb, ub):
    np.random.seed(seed)
    return SearchSpace(n_agents=n_agents, n_variables=n_variables, n_iterations=5,
                       lower_bound=lb, upper_bound=ub)


# 1) direct _update calls: all HMCR / PAR regimes
for seed in (0, 1, 7, 123):
    for HMCR in (0, 0.3, 0.7, 1):
        for PAR in (0, 0.5, 1):
            for n_agents, n_vars in ((1, 1), (2, 3), (6, 2)):
                for fn in (sphere, shifted, nan_fn):
                    space = make(seed, n_agents, n_vars, [-5.0] * n_vars, [5.0] * n_vars)
                    opt = HS(hyperparams={'HMCR': HMCR, 'PAR': PAR, 'bw': 2.5})
                    f = Function(pointer=fn)
                    opt._evaluate(space, f)
                    for _ in range(4):
                        before = list(space.agents)
                        out = opt._update(space.agents, f)
                        feed(out)
                        snapshot(space)
                        feed_rng()
                        # which of the old agent objects survive (the worst may be replaced by a fresh copy)
                        feed(sorted(before.index(a) if a in before else -1 for a in space.agents))

# 2) helper directly: returned harmony is a fresh object, the source agent is untouched
for seed in (2, 19, 77):
    for HMCR, PAR in ((0, 0), (1, 0), (1, 1), (0.5, 0.5), (0.0, 1.0)):
        space = make(seed, 3, 4, [-3.0, 0, 1, -1], [4.0, 0, 2, 1])
        opt = HS(hyperparams={'HMCR': HMCR, 'PAR': PAR, 'bw': 0.75})
        for agent in space.agents:
            agent.fit = float(seed)
            pos_before = agent.position.copy()
            new = opt._generate_new_harmony(agent)
            feed(new.position)
            feed(new.fit)
            feed(new.lb)
            feed(new.ub)
            feed(new is agent)
            feed(new.position is agent.position)
            feed(bool(np.array_equal(pos_before, agent.position)))
            feed_rng()

# 3) full seeded runs
for seed in (3, 11):
    for HMCR in (0.2, 0.7):
        space = make(seed, 5, 2, [-10, -2], [10, 2])
        opt = HS(hyperparams={'HMCR': HMCR})
        hist = opt.run(space, Function(pointer=sphere))
        snapshot(space)
        feed_rng()
        for it in hist.best_agent:
            feed(it[0])
            feed(it[1])

# 4) edge cases and exceptions
space = make(9, 3, 2, [0, 0], [1, 1])
HS()._evaluate(space, Function(pointer=sphere))


class NoBounds:
    """Deep-copyable object that lacks the Agent interface."""
    position = 1.0


cases = []
cases.append(('harmony: None, memory', lambda: HS(hyperparams={'HMCR': 1, 'PAR': 1})._generate_new_harmony(None)))
cases.append(('harmony: None, random', lambda: HS(hyperparams={'HMCR': 0})._generate_new_harmony(None)))
cases.append(('harmony: no bounds, memory', lambda: HS(hyperparams={'HMCR': 1, 'PAR': 0})._generate_new_harmony(NoBounds()).position))
cases.append(('harmony: no bounds, random', lambda: HS(hyperparams={'HMCR': 0})._generate_new_harmony(NoBounds())))
cases.append(('update: empty agents', lambda: HS()._update([], Function(pointer=sphere))))
cases.append(('update: raising objective', lambda: HS()._update(space.agents, Function(pointer=boom))))
cases.append(('update: function None', lambda: HS()._update(space.agents, None)))
cases.append(('update: agents None', lambda: HS()._update(None, Function(pointer=sphere))))
for name, thunk in cases:
    np.random.seed(17)
    try:
        feed(thunk())
        feed(name + ': ok')
    except Exception as ex:  # noqa
        feed(name + ': ' + type(ex).__name__)
    feed_rng()
    snapshot(space)

print(H.hexdigest())
