"""Digest of History.dump/_parse behaviour and of seeded PSO/HC/SA runs through Opytimizer.start.

The digest must be identical with and without the harmless change.
"""
import hashlib
import os
import pickle
import tempfile

import numpy as np

import opytimizer
from opytimizer.core import agent, function
from opytimizer.optimizers import hc, pso, sa
from opytimizer.spaces import search
from opytimizer.utils import history

H = hashlib.sha256()


def feed(x):
    """Feeds a canonical encoding of nested records into the digest."""
    if isinstance(x, (bool, np.bool_)):
        H.update(b'b' + (b'1' if x else b'0'))
    elif isinstance(x, (float, np.floating)):
        H.update(b'f' + float(x).hex().encode())
    elif isinstance(x, (int, np.integer)):
        H.update(b'i' + str(int(x)).encode())
    elif isinstance(x, str):
        H.update(b's' + x.encode())
    elif x is None:
        H.update(b'n')
    elif isinstance(x, np.ndarray):
        H.update(b'a' + str(x.shape).encode())
        for v in x.ravel().tolist():
            feed(v)
    elif isinstance(x, (list, tuple)):
        H.update((b'l' if isinstance(x, list) else b't') + str(len(x)).encode())
        for v in x:
            feed(v)
    elif isinstance(x, dict):
        H.update(b'd' + str(len(x)).encode())
        for k, v in x.items():
            feed(k)
            feed(v)
    else:
        H.update(b'o' + type(x).__name__.encode())


def feed_history(hist, skip_time=True):
    """Feeds every attribute of a History, in attribute-creation order."""
    for k, v in hist.__dict__.items():
        feed(k)
        if k == 'time' and skip_time:
            # Wall-clock: only shape and sign are deterministic
            feed(len(v))
            feed(all(isinstance(t, float) and t >= 0 for t in v))
        else:
            feed(v)


def make_agents(rng, n, n_var, n_dim):
    out = []
    for _ in range(n):
        a = agent.Agent(n_variables=n_var, n_dimensions=n_dim)
        a.position = rng.uniform(-5, 5, size=(n_var, n_dim))
        a.fit = float(rng.uniform(0, 100))
        out.append(a)
    return out


# 1. Direct use of History.dump / _parse
for seed in range(6):
    rng = np.random.default_rng(seed)
    for sbo in (False, True, 0, 1, [], 'yes'):
        hist = history.History(store_best_only=sbo)
        n, n_var, n_dim = [(1, 1, 1), (3, 2, 1), (5, 4, 3), (2, 1, 7), (7, 3, 2), (4, 6, 1)][seed]
        agents = make_agents(rng, n, n_var, n_dim)
        local = rng.normal(size=(n, n_var, n_dim))
        for t in range(4):
            hist.dump(agents=agents, local=local, best_agent=agents[t % n], extra=t, other=[t, 'x'])
            # Mutate live state in place: earlier records must not move
            for a in agents:
                a.position += 1.0
                a.fit = a.fit * 0.5
            local *= -1.5
            feed_history(hist)
        # Keys in different orders, partial keys, repeated custom keys
        hist.dump(best_agent=agents[0])
        hist.dump(local=local)
        hist.dump(agents=agents)
        hist.dump(time=0.25)
        hist.dump()
        feed_history(hist, skip_time=False)
        feed(sorted(hist.__dict__.keys()))
        # _parse on its own, including a key without rule
        feed(hist._parse('agents', agents))
        feed(hist._parse('best_agent', agents[-1]))
        feed(hist._parse('local', local))
        feed(hist._parse('agents', []))
        feed(hist._parse('local', np.zeros((0, 2, 1))))
        feed(hist._parse('unknown', 3))

# 2. Edge cases: special floats, empty lists, pre-existing attributes, errors
hist = history.History()
a = agent.Agent(n_variables=2, n_dimensions=2)
a.position = np.array([[np.inf, -np.inf], [np.nan, -0.0]])
a.fit = float('nan')
hist.dump(agents=[a], best_agent=a, local=np.array([[[np.nan, 0.0], [-0.0, 1e-320]]]))
hist.dump(agents=[], local=[])
feed_history(hist)

hist = history.History()
hist.custom = 'not-a-list'
try:
    hist.dump(custom=1)
    feed('no-error')
except Exception as exc:  # str has no append
    feed(type(exc).__name__)
    feed(str(exc))
feed_history(hist)

hist = history.History(store_best_only=True)
try:
    hist.dump(store_best_only=5)
    feed('no-error')
except Exception as exc:  # bool has no append
    feed(type(exc).__name__)
    feed(str(exc))
feed_history(hist)

hist = history.History()
for bad_key, bad_val in (('agents', 3), ('best_agent', None), ('local', 1.5), ('agents', [1, 2])):
    try:
        hist.dump(**{bad_key: bad_val})
        feed('no-error')
    except Exception as exc:
        feed(type(exc).__name__)
        feed(str(exc))
    feed_history(hist)

# A History whose store_best_only attribute was deleted
hist = history.History()
del hist.store_best_only
for kw in ({'best_agent': a}, {'agents': [a]}, {'zzz': 1}):
    try:
        hist.dump(**kw)
        feed('no-error')
    except Exception as exc:
        feed(type(exc).__name__)
        feed(str(exc))
    feed_history(hist)

# Pickle round trip keeps the attribute order and the values
hist = history.History()
hist.dump(agents=[a], best_agent=a, local=np.ones((1, 2, 2)), k=1)
with tempfile.TemporaryDirectory() as d:
    p = os.path.join(d, 'h.pkl')
    hist.save(p)
    with open(p, 'rb') as f:
        raw = f.read()
    h2 = history.History()
    h2.load(p)
feed(hashlib.sha256(raw).hexdigest())
feed_history(h2)
feed(hist.get('local', (0, 1, 0)))


# 3. Seeded runs through Opytimizer.start (random stream and records)
def sphere(x):
    return np.sum(x ** 2)


def shifted(x):
    return np.sum((x - 1.5) ** 2) + np.sum(np.abs(x))


def flat(x):
    return 1.0


def run(opt_cls, hyper, seed, n_agents, n_var, n_it, fn, sbo, hook=None):
    np.random.seed(seed)
    space = search.SearchSpace(n_agents=n_agents, n_variables=n_var, n_iterations=n_it,
                               lower_bound=[-3.0] * n_var, upper_bound=[4.0] * n_var)
    opt = opt_cls(hyperparams=hyper)
    task = opytimizer.Opytimizer(space=space, optimizer=opt, function=function.Function(pointer=fn))
    out = task.start(store_best_only=sbo, pre_evaluation_hook=hook)
    feed_history(out)
    feed(len(out.time))
    feed([(ag.position, ag.fit) for ag in space.agents])
    feed((space.best_agent.position, space.best_agent.fit))
    # Position of the random stream after the run
    feed(float(np.random.uniform()))
    feed(pickle.dumps([k for k in out.__dict__]).hex())


calls = []


def hook(opt, space, fn):
    calls.append(len(space.agents))


for seed in (0, 1, 2, 3):
    for sbo in (False, True):
        for fn in (sphere, shifted, flat):
            run(pso.PSO, {'w': 0.7, 'c1': 1.7, 'c2': 1.7}, seed, 1 + seed * 3, 1 + seed, 6 + seed, fn, sbo)
            run(pso.PSO, {}, seed, 4, 2, 1, fn, sbo, hook)
            run(hc.HC, {}, seed, 3, 2, 5, fn, sbo)
            run(sa.SA, {}, seed, 3, 2, 5, fn, sbo, hook)
feed(calls)

print(H.hexdigest())
