"""Digest of seeded SA runs and direct SA._update calls: temperature at every hook, agents, RNG state.

Run: cd /tmp/harmless/C15 && PYTHONPATH=/tmp/harmless/C15 /venv/bin/python harmlessB/same.py
"""
import hashlib
import logging
import warnings

import numpy as np

logging.disable(logging.CRITICAL)
warnings.simplefilter('ignore')

from opytimizer.core import function
from opytimizer.optimizers import sa
from opytimizer.spaces import search

H = hashlib.sha256()


def put(x):
    """Feeds a value (number, array, string, exception) into the digest."""
    if isinstance(x, str):
        H.update(x.encode())
    elif isinstance(x, BaseException):
        H.update((type(x).__name__ + ':' + str(x)).encode())
    else:
        for v in np.asarray(x, dtype=float).ravel():
            H.update(float(v).hex().encode())
        H.update(type(x).__name__.encode())
    H.update(b'|')


def sphere(x):
    return float(np.sum(x ** 2))


def sphere_np(x):
    # NumPy scalar fitness: division by T == 0 warns instead of raising
    return np.sum(x ** 2)


def shifted(x):
    return float(np.sum(np.abs(x - 0.3)) - 1.0)


def const(x):
    return 1.0


def steps(x):
    # Many ties between the candidate and the current state
    return float(np.sum(np.floor(2 * x)))


def sometimes_nan(x):
    s = float(np.sum(x))
    return float('nan') if s > 1.0 else s


def huge(x):
    # exp overflows for worse candidates at small temperatures / large negative exponents
    return float(1e300 * np.sum(x))


def as_array(x):
    # one-element array fitness
    return np.sum(x ** 2, axis=0)[:1]


def as_vector(x):
    # ambiguous truth value in the comparison
    return np.array([1.0, 2.0]) * np.sum(x)


CONFIGS = [
    # (hyperparams, n_agents, n_variables, n_iterations, objective)
    ({}, 5, 2, 10, sphere),
    ({}, 1, 1, 1, sphere),
    ({'T': 1, 'beta': 0.5}, 4, 3, 12, shifted),
    ({'T': 0.001, 'beta': 1}, 4, 2, 8, sphere),
    ({'T': 1e-300, 'beta': 0.1}, 3, 2, 6, sphere),
    ({'T': 100, 'beta': 0}, 3, 2, 4, sphere),
    ({'T': 0, 'beta': 0.9}, 3, 2, 4, sphere),
    ({'T': 0, 'beta': 0.9}, 3, 2, 4, sphere_np),
    ({'T': 100, 'beta': 0}, 3, 2, 4, sphere_np),
    ({'T': 5, 'beta': 1.5}, 4, 2, 6, shifted),
    ({'T': 10, 'beta': 0.9}, 4, 2, 7, const),
    ({'T': 0.5, 'beta': 0.9}, 6, 2, 9, steps),
    ({'T': 2, 'beta': 0.8}, 5, 2, 7, sometimes_nan),
    ({'T': 1e-5, 'beta': 0.5}, 4, 2, 6, huge),
    ({'T': 3, 'beta': 0.7}, 3, 2, 5, as_array),
    ({'T': 3, 'beta': 0.7}, 3, 2, 5, as_vector),
]


def snapshot(opt, space):
    put(opt.T)
    put(type(opt.T).__name__)
    put(opt.beta)
    for agent in space.agents:
        put(agent.position)
        try:
            put(agent.fit)
        except Exception as exc:
            put(exc)
    put(space.best_agent.position)
    put(space.best_agent.fit)


for k, (hyper, n_agents, n_vars, n_iter, obj) in enumerate(CONFIGS):
    for seed in (0, 1, 12345):
        np.random.seed(seed + 1000 * k)
        put(f'config {k} seed {seed}')

        space = search.SearchSpace(n_agents=n_agents, n_iterations=n_iter, n_variables=n_vars,
                                   lower_bound=[-2.0] * n_vars, upper_bound=[3.0] * n_vars)
        opt = sa.SA(hyperparams=dict(hyper))
        fn = function.Function(pointer=obj)

        def hook(optimizer, sp, f):
            put(optimizer.T)
            put(optimizer.beta)
            for agent in sp.agents:
                put(agent.position)

        try:
            history = opt.run(space, fn, pre_evaluation_hook=hook)
            for pos, fit in history.best_agent:
                put(pos)
                put(fit)
            for it in history.agents:
                for pos, fit in it:
                    put(pos)
                    put(fit)
        except Exception as exc:  # same exception for the same input
            put(exc)

        snapshot(opt, space)
        put(np.random.uniform(size=4))

# Direct calls of _update on hand-made fitness values (better / equal / worse / inf / nan current fitness)
for k, (T, fits) in enumerate([
        (1.0, [0.0, 1.0, 10.0]),
        (1e-3, [5.0, 5.0, 5.0]),
        (50.0, [float('inf'), -float('inf'), 2.0]),
        (2.0, [float('nan'), 0.5, float('nan')]),
        (0, [1.0, 1.0, 1.0]),
        (1e308, [1e308, -1e308, 0.0]),
]):
    for obj in (sphere, const, sphere_np, sometimes_nan):
        np.random.seed(500 + k)
        put(f'direct {k} {obj.__name__}')
        space = search.SearchSpace(n_agents=len(fits), n_iterations=3, n_variables=2,
                                   lower_bound=[-1.0, -1.0], upper_bound=[1.0, 1.0])
        for agent, fit in zip(space.agents, fits):
            agent.fit = fit
        opt = sa.SA(hyperparams={'T': T, 'beta': 0.75})
        fn = function.Function(pointer=obj)
        for _ in range(4):
            try:
                opt._update(space.agents, fn)
            except Exception as exc:
                put(exc)
            put(opt.T)
            for agent in space.agents:
                put(agent.position)
                put(agent.fit)
                put(type(agent.fit).__name__)
        put(np.random.uniform(size=4))

print(H.hexdigest())
