"""Behaviour digest for the GP population-level operators.

Run as:
    cd /tmp/harmless4/gpB && PYTHONPATH=/tmp/harmless4/gpB /venv/bin/python harmlessX/same.py

Prints, as its last line, a sha256 digest over every observable result
(tree structure, positions, fitness, object identities / aliasing, state of
the NumPy random stream, exception types).
"""

import hashlib
import logging
import os
import sys

import numpy as np

logging.disable(logging.CRITICAL)

import opytimizer.optimizers.gp as gp  # noqa: E402
from opytimizer.core import function  # noqa: E402
from opytimizer.spaces import tree  # noqa: E402

FOCUS = 'mutation'

_H = hashlib.sha256()
_N = [0]


def emit(*items):
    """Feeds items into the digest."""

    for it in items:
        _H.update(repr(it).encode())
        _H.update(b'\x00')
        _N[0] += 1


def fhex(x):
    """Exact rendering of numbers / arrays."""

    if isinstance(x, (bool, int, str, type(None))):
        return repr(x)
    if isinstance(x, (float, np.floating)):
        return float(x).hex()
    if isinstance(x, np.integer):
        return 'npint:%d' % int(x)
    a = np.asarray(x)
    return (str(a.dtype), a.shape, [float(v).hex() for v in a.ravel()])


def rng_state():
    st = np.random.get_state()
    return hashlib.sha256(st[1].tobytes()).hexdigest()[:16], int(st[2]), int(st[3]), float(st[4]).hex()


def node_sig(t):
    """Structure of a tree, including flags and parent wiring."""

    out = []
    pre = t.pre_order
    index = {id(n): k for k, n in enumerate(pre)}
    for n in pre:
        out.append((repr(n), index.get(id(n.parent), -1) if n.parent is not None else None,
                    index.get(id(n.left), -1) if n.left is not None else None,
                    index.get(id(n.right), -1) if n.right is not None else None,
                    fhex(n.value) if n.value is not None else None))
    return out


def space_sig(space, old_trees=None, old_agents=None):
    """Everything observable in a TreeSpace."""

    sig = []
    for k, t in enumerate(space.trees):
        sig.append(('tree', k, type(t).__name__, t.n_nodes, node_sig(t), fhex(t.position)))
    for k, a in enumerate(space.agents):
        sig.append(('agent', k, fhex(a.position), fhex(a.fit)))
    # identity patterns: where did every object come from?
    if old_trees is not None:
        ids = {id(o): k for k, o in enumerate(old_trees)}
        sig.append(('tree-origin', [ids.get(id(t), -1) for t in space.trees]))
        # sub-node sharing between old and new trees
        old_nodes = {}
        for k, o in enumerate(old_trees):
            for j, n in enumerate(o.pre_order):
                old_nodes.setdefault(id(n), (k, j))
        sig.append(('node-origin', [[old_nodes.get(id(n), -1) for n in t.pre_order] for t in space.trees]))
    if old_agents is not None:
        ids = {id(o): k for k, o in enumerate(old_agents)}
        sig.append(('agent-origin', [ids.get(id(a), -1) for a in space.agents]))
    # aliasing inside the population
    sig.append(('tree-alias', [[i for i, u in enumerate(space.trees) if u is t][0] for t in space.trees]))
    sig.append(('agent-alias', [[i for i, u in enumerate(space.agents) if u is a][0] for a in space.agents]))
    sig.append(('pos-alias', [[i for i, u in enumerate(space.agents) if u.position is a.position][0]
                              for a in space.agents]))
    sig.append(('best', fhex(space.best_agent.position), fhex(space.best_agent.fit), node_sig(space.best_tree)))
    sig.append(('lists', type(space.trees).__name__, len(space.trees), type(space.agents).__name__,
                len(space.agents)))
    return sig


def sphere(x):
    return np.sum(x ** 2)


def shifted(x):
    return np.sum((x - 1.5) ** 2) + 0.25


def attempt(label, thunk):
    """Runs a thunk, recording its result or the exception type."""

    try:
        res = thunk()
        emit(label, 'ok', res)
        status = 'ok'
    except BaseException as ex:  # noqa
        emit(label, 'raised', type(ex).__module__, type(ex).__name__, str(ex))
        status = 'raised %s: %s' % (type(ex).__name__, ex)
    if os.environ.get('SAME_VERBOSE'):
        sys.stderr.write('%r -> %s\n' % (label, status))


def make_space(seed, n_trees, min_depth, max_depth, functions, n_terminals=2, n_variables=1,
               lb=(0,), ub=(10,), objective=sphere, evaluate=True):
    np.random.seed(seed)
    space = tree.TreeSpace(n_trees=n_trees, n_terminals=n_terminals, n_variables=n_variables,
                           n_iterations=3, min_depth=min_depth, max_depth=max_depth,
                           functions=list(functions), lower_bound=list(lb), upper_bound=list(ub))
    if evaluate:
        gp.GP()._evaluate(space, function.Function(pointer=objective))
    return space


ALL = ['SUM', 'SUB', 'MUL', 'DIV']

CONFIGS = [
    # (seed, n_trees, min_depth, max_depth, functions, hyperparams)
    (0, 10, 1, 3, ALL, {}),
    (1, 12, 1, 5, ALL, {'p_reproduction': 0.5, 'p_mutation': 0.5, 'p_crossover': 0.5}),
    (2, 8, 2, 2, ALL, {'p_reproduction': 1, 'p_mutation': 1, 'p_crossover': 1}),          # single-node trees only
    (3, 9, 1, 4, ['SUM'], {'p_reproduction': 0.34, 'p_mutation': 0.34, 'p_crossover': 0.34,
                           'prunning_ratio': 0.5}),
    (4, 15, 1, 6, ALL, {'p_reproduction': 0.9, 'p_mutation': 0.9, 'p_crossover': 0.9, 'prunning_ratio': 1}),
    (5, 7, 1, 3, ['MUL', 'DIV'], {'p_reproduction': 0, 'p_mutation': 0, 'p_crossover': 0}),   # nothing selected
    (6, 1, 1, 3, ALL, {'p_reproduction': 1, 'p_mutation': 1, 'p_crossover': 1}),             # one tree
    (7, 5, 1, 4, ALL, {'p_reproduction': 0.2, 'p_mutation': 0.2, 'p_crossover': 0.2,
                       'prunning_ratio': 0.99}),                                             # odd -> even
    (8, 20, 1, 7, ALL, {'p_reproduction': 0.75, 'p_mutation': 0.6, 'p_crossover': 0.55,
                        'prunning_ratio': 0.25}),
    (9, 6, 3, 3, ALL, {'p_reproduction': 1.0, 'p_mutation': 1.0, 'p_crossover': 1.0}),
]


def check_prune():
    ratios = [0, 0.0, 0.1, 0.25, 1 / 3, 0.5, 0.75, 0.9, 0.99, 0.999999, 1, 1.0, True, False]
    counts = [0, 1, 2, 3, 4, 5, 7, 10, 11, 100, 1001, 10 ** 6, 10 ** 18, 10 ** 30, -1, -5, -100,
              2.0, 2.5, 2.999999, 3.0, 3.5, 9.99, 1e300, -0.0, True, False,
              np.int64(3), np.int64(2), np.int32(50), np.float64(3.7), np.float32(12.5), np.uint8(200)]
    for ratio in ratios:
        opt = gp.GP(hyperparams={'prunning_ratio': ratio})
        for n in counts:
            def thunk(opt=opt, n=n):
                res = opt._prune_nodes(n)
                return type(res).__name__, fhex(res)
            attempt(('prune', repr(ratio), repr(n)), thunk)
    # inputs for which the computation itself fails or is odd
    opt = gp.GP(hyperparams={'prunning_ratio': 0.5})
    for bad in [float('nan'), float('inf'), -float('inf'), None, 'abc', '7', [1, 2], (3,), np.array([5.0]),
                np.array([5.0, 6.0]), np.array(9), 1 + 2j, np.nan, np.float64('inf')]:
        def thunk(bad=bad):
            res = opt._prune_nodes(bad)
            return type(res).__name__, fhex(res)
        attempt(('prune-bad', repr(bad)), thunk)
    # The private attribute set to unusual values behind the setter's back
    for ratio in [-1, 2, 1.5, -0.5, float('nan'), float('inf'), None, 'x']:
        opt = gp.GP()
        opt._prunning_ratio = ratio
        for n in [1, 3, 10]:
            def thunk(opt=opt, n=n):
                res = opt._prune_nodes(n)
                return type(res).__name__, fhex(res)
            attempt(('prune-raw', repr(ratio), n), thunk)


def check_operator(name):
    for seed, n_trees, dmin, dmax, funcs, hyper in CONFIGS:
        for objective in (sphere, shifted):
            space = make_space(seed, n_trees, dmin, dmax, funcs, objective=objective)
            opt = gp.GP(hyperparams=dict(hyper))
            old_trees, old_agents = list(space.trees), list(space.agents)
            trees_list, agents_list = space.trees, space.agents
            np.random.seed(1000 + seed)

            def thunk():
                return getattr(opt, name)(space)
            attempt((name, seed, objective.__name__, 'ret'), thunk)
            emit((name, seed, objective.__name__), space_sig(space, old_trees, old_agents), rng_state(),
                 space.trees is trees_list, space.agents is agents_list)
            # a second application on the already modified space
            attempt((name, seed, objective.__name__, 'ret2'), thunk)
            emit((name, seed, objective.__name__, 2), space_sig(space, old_trees, old_agents), rng_state())


def check_operator_edge(name):
    # fitness ties / duplicated fitness, equal fitness everywhere
    for seed in (11, 12):
        space = make_space(seed, 8, 1, 4, ALL)
        for a in space.agents:
            a.fit = 1.0
        opt = gp.GP(hyperparams={'p_reproduction': 0.5, 'p_mutation': 0.5, 'p_crossover': 0.5})
        old_trees, old_agents = list(space.trees), list(space.agents)
        np.random.seed(seed)
        attempt((name, 'ties', seed), lambda: getattr(opt, name)(space))
        emit(space_sig(space, old_trees, old_agents), rng_state())
    # non-evaluated space (all fitness at float max)
    space = make_space(13, 6, 1, 3, ALL, evaluate=False)
    opt = gp.GP(hyperparams={'p_reproduction': 0.5, 'p_mutation': 0.5, 'p_crossover': 0.5})
    old_trees, old_agents = list(space.trees), list(space.agents)
    np.random.seed(13)
    attempt((name, 'noeval'), lambda: getattr(opt, name)(space))
    emit(space_sig(space, old_trees, old_agents), rng_state())
    # negative / nan / inf fitness values
    for label, fits in (('neg', [-3.0, -1.0, -2.0, 0.0, 5.0, -7.5]),
                        ('inf', [float('inf'), 1.0, 2.0, float('inf'), 0.5, 3.0]),
                        ('nan', [1.0, float('nan'), 2.0, 0.25, 4.0, 3.0]),
                        ('arr', [np.float64(3.0), np.float64(1.0), 2.0, 0.5, 7, 1])):
        space = make_space(14, 6, 1, 4, ALL)
        for a, f in zip(space.agents, fits):
            a.fit = f
        opt = gp.GP(hyperparams={'p_reproduction': 0.7, 'p_mutation': 0.7, 'p_crossover': 0.7,
                                 'prunning_ratio': 0.3})
        old_trees, old_agents = list(space.trees), list(space.agents)
        np.random.seed(14)
        attempt((name, 'fit', label), lambda: getattr(opt, name)(space))
        emit(space_sig(space, old_trees, old_agents), rng_state())
    # n_trees attribute larger / smaller than the lists
    for n in (3, 12):
        space = make_space(15, 6, 1, 4, ALL)
        space._n_trees = n
        opt = gp.GP(hyperparams={'p_reproduction': 0.5, 'p_mutation': 0.5, 'p_crossover': 0.5})
        old_trees, old_agents = list(space.trees), list(space.agents)
        np.random.seed(15)
        attempt((name, 'ntrees', n), lambda: getattr(opt, name)(space))
        emit(space_sig(space, old_trees, old_agents), rng_state())
    # empty population and broken spaces
    space = make_space(16, 4, 1, 3, ALL)
    space._trees = []
    space.agents = []
    opt = gp.GP(hyperparams={'p_reproduction': 0.5, 'p_mutation': 0.5, 'p_crossover': 0.5})
    np.random.seed(16)
    attempt((name, 'empty'), lambda: getattr(opt, name)(space))
    emit(rng_state())
    space = make_space(17, 4, 1, 3, ALL)
    space._trees = space.trees[:2]
    opt = gp.GP(hyperparams={'p_reproduction': 1, 'p_mutation': 1, 'p_crossover': 1})
    old_trees, old_agents = list(space.trees), list(space.agents)
    np.random.seed(17)
    attempt((name, 'short-trees'), lambda: getattr(opt, name)(space))
    emit(space_sig(space, old_trees, old_agents), rng_state())
    attempt((name, 'none'), lambda: getattr(opt, name)(None))
    attempt((name, 'object'), lambda: getattr(opt, name)(object()))
    # a tree list holding a non-Node
    space = make_space(18, 4, 1, 3, ALL)
    space.trees[1] = None
    space.trees[2] = 'tree'
    np.random.seed(18)
    attempt((name, 'non-node'), lambda: getattr(opt, name)(space))
    emit(rng_state(), [type(t).__name__ for t in space.trees])
    # the same tree object stored twice in the population
    space = make_space(19, 6, 1, 4, ALL)
    space.trees[3] = space.trees[0]
    space.agents[3] = space.agents[0]
    opt = gp.GP(hyperparams={'p_reproduction': 1, 'p_mutation': 1, 'p_crossover': 1})
    old_trees, old_agents = list(space.trees), list(space.agents)
    np.random.seed(19)
    attempt((name, 'shared'), lambda: getattr(opt, name)(space))
    emit(space_sig(space, old_trees, old_agents), rng_state())


def check_calls(name):
    """Records the sequence of calls made to the collaborating methods."""

    for seed, n_trees, dmin, dmax, funcs, hyper in CONFIGS[:5]:
        space = make_space(seed, n_trees, dmin, dmax, funcs)
        opt = gp.GP(hyperparams=dict(hyper))
        calls = []
        # the original trees are kept alive, so that their id() can not be recycled
        keep = list(space.trees)
        index = {id(t): k for k, t in enumerate(keep)}

        orig_prune, orig_mutate, orig_cross, orig_grow = opt._prune_nodes, opt._mutate, opt._cross, space.grow

        def prune(n):
            res = orig_prune(n)
            calls.append(('prune', fhex(n), fhex(res)))
            return res

        def mutate(sp, tr, mx):
            calls.append(('mutate', sp is space, index.get(id(tr), -1), fhex(mx), rng_state()))
            return orig_mutate(sp, tr, mx)

        def cross(f, m, mf, mm):
            calls.append(('cross', index.get(id(f), -1), index.get(id(m), -1), fhex(mf), fhex(mm), rng_state()))
            return orig_cross(f, m, mf, mm)

        def grow(a, b):
            calls.append(('grow', a, b, rng_state()))
            return orig_grow(a, b)

        opt._prune_nodes, opt._mutate, opt._cross, space.grow = prune, mutate, cross, grow
        np.random.seed(2000 + seed)
        attempt((name, 'calls', seed), lambda: getattr(opt, name)(space))
        emit(calls, rng_state(), len(keep))


def check_run():
    for seed, n_trees, dmin, dmax, funcs, hyper in CONFIGS:
        np.random.seed(seed)
        space = tree.TreeSpace(n_trees=n_trees, n_terminals=2, n_variables=2, n_iterations=6,
                               min_depth=dmin, max_depth=dmax, functions=list(funcs),
                               lower_bound=[-5, 0], upper_bound=[5, 10])
        opt = gp.GP(hyperparams=dict(hyper))
        hooks = []

        def hook(o, s, f):
            hooks.append(rng_state())
        try:
            hist = opt.run(space, function.Function(pointer=shifted), pre_evaluation_hook=hook)
            emit('run', seed, [[(fhex(p), fhex(f)) for p, f in it] for it in hist.agents],
                 [(fhex(p), fhex(f)) for p, f in hist.best_agent],
                 [node_sig(t) for t in hist.best_tree] if hasattr(hist, 'best_tree') else None)
        except BaseException as ex:  # noqa
            emit('run', seed, 'raised', type(ex).__name__, str(ex))
        emit(hooks, space_sig(space), rng_state())


def main():
    check_prune()
    for name in ('_reproduction', '_mutation', '_crossover', '_update'):
        check_operator(name)
        check_operator_edge(name)
        check_calls(name)
    check_run()
    print('focus:', FOCUS, '| items hashed:', _N[0])
    print(_H.hexdigest())


if __name__ == '__main__':
    main()
    sys.stdout.flush()
