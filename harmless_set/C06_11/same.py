"""Behaviour digest for the code touched by this change.

Run as: cd /tmp/harmless4/limits && PYTHONPATH=/tmp/harmless4/limits /venv/bin/python harmlessB/same.py
The LAST line printed is a sha256 digest that must be identical with and without the patch.
"""
import hashlib
import logging
import os
import sys
import warnings

import numpy as np

warnings.filterwarnings('ignore')

import opytimizer  # noqa: E402
from opytimizer import Opytimizer  # noqa: E402
from opytimizer.core.agent import Agent  # noqa: E402
from opytimizer.core.function import Function  # noqa: E402
from opytimizer.core.optimizer import Optimizer  # noqa: E402
from opytimizer.spaces.search import SearchSpace  # noqa: E402
from opytimizer.spaces.hyper import HyperSpace  # noqa: E402
from opytimizer.spaces.tree import TreeSpace  # noqa: E402

logging.disable(logging.CRITICAL)

_H = hashlib.sha256()
_N = [0]


def feed(x):
    """Feeds any (nested) result into the digest; floats go in as float.hex()."""
    _N[0] += 1
    if isinstance(x, BaseException):
        if os.environ.get('SAME_DEBUG'):
            print('exception:', type(x).__name__, x, file=sys.stderr)
        _H.update(('E:' + type(x).__name__ + ';').encode())
    elif isinstance(x, (bool, np.bool_)):
        _H.update(('b:%d;' % bool(x)).encode())
    elif isinstance(x, (int, np.integer)):
        _H.update(('i:%d;' % int(x)).encode())
    elif isinstance(x, (float, np.floating)):
        _H.update(('f:' + float(x).hex() + ';').encode())
    elif isinstance(x, str):
        _H.update(('s:' + x + ';').encode())
    elif x is None:
        _H.update(b'n;')
    elif isinstance(x, np.ndarray):
        _H.update(('a:%s:%s[' % (x.dtype.str, x.shape)).encode())
        for v in x.ravel().tolist():
            feed(v)
        _H.update(b'];')
    elif isinstance(x, (list, tuple)):
        _H.update(('l:%s:%d[' % (type(x).__name__, len(x))).encode())
        for v in x:
            feed(v)
        _H.update(b'];')
    elif isinstance(x, dict):
        _H.update(b'd[')
        for k in sorted(x):
            feed(k)
            feed(x[k])
        _H.update(b'];')
    else:
        _H.update(('o:' + type(x).__name__ + ';').encode())


def feed_rng():
    """Feeds the state of NumPy's global generator (detects extra / missing / reordered draws)."""
    st = np.random.get_state()
    feed(st[0])
    feed(hashlib.sha256(st[1].tobytes()).hexdigest())
    feed(int(st[2]))
    feed(int(st[3]))
    feed(float(st[4]))


def feed_agent(a):
    if not isinstance(a, Agent):
        feed(repr(a))
        return
    feed(type(a.position).__name__)
    if isinstance(a.position, np.ndarray) or a.position is None:
        feed(a.position)
    else:
        feed([np.asarray(r) for r in a.position])
    feed(a.fit)
    feed(a.lb)
    feed(a.ub)


def feed_space(s):
    for a in s.agents:
        feed_agent(a)
    feed_agent(s.best_agent)
    feed(s.lb)
    feed(s.ub)


def feed_history(h):
    for key in ('agents', 'best_agent', 'local'):
        if hasattr(h, key):
            feed(key)
            feed(getattr(h, key))


def attempt(fn, *args):
    """Calls fn, feeding either 'ok' plus its result or the exception type."""
    try:
        out = fn(*args)
    except Exception as exc:  # pylint: disable=broad-except
        feed(exc)
        return exc
    feed('ok')
    feed(out)
    return out


def sphere(x):
    return float(np.sum(np.asarray(x, dtype=float) ** 2))


def shifted(x):
    return float(np.sum((np.asarray(x, dtype=float) - 0.3) ** 2) + np.sum(np.abs(np.asarray(x, dtype=float))))


def run_task(seed, make_space, make_optimizer, objective, **start_kw):
    """A complete seeded optimization task; everything observable goes into the digest."""
    np.random.seed(seed)
    try:
        space = make_space()
        hist = Opytimizer(space=space, optimizer=make_optimizer(), function=Function(pointer=objective)).start(**start_kw)
    except Exception as exc:  # pylint: disable=broad-except
        feed(exc)
        feed_rng()
        return
    feed_history(hist)
    feed_space(space)
    feed_rng()


def finish():
    print('items fed:', _N[0])
    print(_H.hexdigest())

from opytimizer.optimizers.fa import FA  # noqa: E402
from opytimizer.optimizers.gsa import GSA  # noqa: E402
from opytimizer.optimizers.hc import HC  # noqa: E402
from opytimizer.optimizers.pso import PSO  # noqa: E402
from opytimizer.optimizers.sca import SCA  # noqa: E402
from opytimizer.optimizers.wca import WCA  # noqa: E402


def make_space(seed, n_agents, n_var, lower, upper, scale=3.0):
    np.random.seed(seed)
    s = SearchSpace(n_agents=n_agents, n_variables=n_var, n_iterations=3, lower_bound=lower, upper_bound=upper)
    for a in s.agents:
        a.position = a.position + np.random.normal(0.0, scale, size=a.position.shape)
    return s


def checked(s):
    """Runs check_limits and feeds outcome, state and the identities visible from outside."""
    agents = list(s.agents)
    poss = [getattr(a, 'position', None) for a in agents]
    best, best_pos = s.best_agent, s.best_agent.position
    lb, ub = s.lb, s.ub
    res = attempt(s.check_limits)
    feed([x is y for x, y in zip(s.agents, agents)])
    feed([getattr(a, 'position', None) is p for a, p in zip(agents, poss)])
    feed(s.best_agent is best)
    feed(s.best_agent.position is best_pos)
    feed(s.lb is lb)
    feed(s.ub is ub)
    feed_space(s)
    feed_rng()
    return res


# 1. seeded spaces of several shapes
for seed, (n_agents, n_var) in enumerate([(1, 1), (3, 2), (5, 5), (10, 3), (2, 8)]):
    lower = [-(i + 1) * 0.5 for i in range(n_var)]
    upper = [(i + 1) * 0.25 for i in range(n_var)]
    checked(make_space(seed, n_agents, n_var, lower, upper))

# 2. the SPACE's bounds are used, not the agents' own (which are made different here)
s = make_space(11, 4, 3, [-1, -1, -1], [1, 1, 1])
for a in s.agents:
    a.lb = np.array([-9.0, -9.0, -9.0])
    a.ub = np.array([9.0, 9.0, 9.0])
checked(s)
s = make_space(12, 4, 3, [-1, -1, -1], [1, 1, 1])
s.lb = np.array([-0.1, -0.2, -0.3])
s.ub = np.array([0.1, 0.2, 0.3])
checked(s)

# 3. special values
s = make_space(13, 2, 4, [0, -1, 0, 1], [1, 1, 0, -1])
s.agents[0].position = np.array([[np.nan], [np.inf], [-0.0], [0.0]])
s.agents[1].position = np.array([[-np.inf], [np.nan], [5.0], [-5.0]])
checked(s)
s = make_space(14, 2, 3, [0, 0, 0], [1, 1, 1])
s.lb = np.array([np.nan, 0.0, -np.inf])
s.ub = np.array([1.0, np.nan, np.inf])
checked(s)

# 4. bounds of different lengths (possible by bypassing the setters) and too many bounds
s = make_space(15, 3, 3, [-1, -1, -1], [1, 1, 1])
s._lb = np.array([-0.5, -0.5])
checked(s)
s = make_space(16, 3, 3, [-1, -1, -1], [1, 1, 1])
s._ub = np.array([])
checked(s)
s = make_space(17, 3, 2, [-1, -1], [1, 1])
s._lb = np.array([-0.5, -0.5, -0.5])
s._ub = np.array([0.5, 0.5, 0.5])
checked(s)   # IndexError on the first agent's third row, later agents untouched

# 5. wrongly typed bounds / agents, empty agent list, shared and aliased agents
s = make_space(18, 2, 2, [-1, -1], [1, 1])
s._lb = None
checked(s)
s = make_space(19, 2, 2, [-1, -1], [1, 1])
s._ub = 3.0
checked(s)
s = make_space(20, 2, 2, [-1, -1], [1, 1])
s.agents = []
checked(s)
s = make_space(21, 3, 2, [-1, -1], [1, 1])
s.agents = [s.agents[0], s.agents[0], s.agents[2]]
checked(s)
s = make_space(22, 3, 2, [-1, -1], [1, 1])
s.agents[1].position = s.agents[0].position
checked(s)
s = make_space(23, 3, 2, [-1, -1], [1, 1])
s.agents[1] = 'not an agent'
checked(s)   # AttributeError after the first agent was clipped
s = make_space(24, 2, 2, [-1, -1], [1, 1])
s.agents[0].position = [np.array([4.0]), np.array([-4.0])]
s.agents[1].position = np.array([[7], [-7]])
checked(s)

# 6. the best agent is not an element of `agents` and must not be clipped
s = make_space(25, 2, 2, [-1, -1], [1, 1])
s.best_agent.position = np.array([[50.0], [-50.0]])
checked(s)

# 7. a subclass whose bounds getters count their accesses (same number and order of reads)
class Counting(SearchSpace):
    reads = []

    @property
    def lb(self):
        Counting.reads.append('lb')
        return self._lb

    @lb.setter
    def lb(self, lb):
        self._lb = lb

    @property
    def ub(self):
        Counting.reads.append('ub')
        return self._ub

    @ub.setter
    def ub(self, ub):
        self._ub = ub


np.random.seed(26)
c = Counting(n_agents=3, n_variables=2, n_iterations=2, lower_bound=[-1, -1], upper_bound=[1, 1])
for a in c.agents:
    a.position = a.position * 5.0
Counting.reads.clear()
attempt(c.check_limits)
feed(list(Counting.reads))
feed_space(c)

# 8. seeded optimizers that call SearchSpace.check_limits every iteration
for seed in (0, 5):
    for opt in (PSO, HC, FA, GSA, SCA, WCA):
        run_task(seed, lambda: SearchSpace(n_agents=6, n_variables=3, n_iterations=10,
                                           lower_bound=[-1, -0.5, 0], upper_bound=[1, 0.5, 0.1]), opt, shifted)
    run_task(seed, lambda: SearchSpace(n_agents=4, n_variables=2, n_iterations=6, lower_bound=[-10, -10],
                                       upper_bound=[10, 10]), PSO, sphere, store_best_only=True)

finish()
