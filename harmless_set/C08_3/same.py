"""Digest of Node traversals (pre_order, post_order, find_node) and properties (n_nodes, n_leaves,
min_depth, max_depth) on hand-built, seeded and degenerate trees, and of short GP runs using them.

Run as: cd /tmp/harmless/C08 && PYTHONPATH=/tmp/harmless/C08 /venv/bin/python harmlessC/same.py
The last line printed is the digest; it must be the same with and without harmlessC/patch.diff.
"""

import copy
import hashlib
import logging

logging.disable(logging.CRITICAL)

import numpy as np

import opytimizer.core.node as node_module
from opytimizer.core.function import Function
from opytimizer.core.node import Node
from opytimizer.optimizers.gp import GP
from opytimizer.spaces.tree import TreeSpace

np.seterr(all='ignore')

ALL = ['SUM', 'SUB', 'MUL', 'DIV', 'EXP', 'SQRT', 'LOG', 'ABS', 'SIN', 'COS']

H = hashlib.sha256()


def put(*items):
    for it in items:
        H.update(repr(it).encode())
        H.update(b'|')


def put_array(a):
    if a is None:
        put('None')
        return
    a = np.asarray(a)
    put(a.shape, str(a.dtype))
    for x in a.ravel().tolist():
        put(float(x).hex() if isinstance(x, float) else x)


def put_rng():
    st = np.random.get_state()
    put(st[0], hashlib.sha256(st[1].tobytes()).hexdigest(), st[2], st[3], float(st[4]).hex())


def walk(tree):
    """Distinct nodes reachable through left/right, independent of the library traversals."""
    out, stack, seen = [], [tree], set()
    while stack:
        n = stack.pop()
        if n is None or id(n) in seen:
            continue
        seen.add(id(n))
        out.append(n)
        stack.append(n.right)
        stack.append(n.left)
    return out


def attempt(label, thunk):
    try:
        value = thunk()
    except BaseException as ex:  # noqa
        put(label, 'raised', type(ex).__name__, str(ex))
        return None
    return value


def put_tree(tree, positions=True):
    """Everything the changed code computes for a tree, expressed through node indices."""
    nodes = walk(tree)
    index = {id(n): i for i, n in enumerate(nodes)}

    def ix(n):
        return None if n is None else index.get(id(n), 'ext')

    put('tree', len(nodes))
    for n in nodes:
        put(n.type, n.name, n.flag, ix(n.left), ix(n.right), ix(n.parent))
        put_array(n.value)

    # traversals and properties from the root and from every inner node
    for n in nodes:
        pre = attempt('pre', lambda: n.pre_order)
        post = attempt('post', lambda: n.post_order)
        if pre is not None:
            put('pre', [ix(m) for m in pre], isinstance(pre, list))
        if post is not None:
            put('post', [ix(m) for m in post], isinstance(post, list))
        put(attempt('n_nodes', lambda: n.n_nodes), attempt('n_leaves', lambda: n.n_leaves),
            attempt('min_depth', lambda: n.min_depth), attempt('max_depth', lambda: n.max_depth))
        props = attempt('props', lambda: node_module._properties(n))
        if props is not None:
            put(sorted(props.items()), [type(v).__name__ for v in props.values()])

    # the traversal must not rebind or modify anything: the same nodes afterwards
    put([ix(m) for m in walk(tree)] == list(range(len(nodes))))

    # find_node at every position (and out of range ones)
    for p in list(range(-2, len(nodes) + 3)):
        found = attempt('find', lambda: tree.find_node(p))
        if found is not None:
            put('find', p, ix(found[0]), found[1])

    put(repr(tree), attempt('str', lambda: str(tree)))
    if positions:
        pos = attempt('position', lambda: tree.position)
        put_array(pos)


def T(k, v=None):
    return Node(name=k, type='TERMINAL', value=np.array([[float(k) + 0.25 if v is None else v], [1.5 - k]]))


def F(name, left=None, right=None):
    n = Node(name=name, type='FUNCTION')
    if left is not None:
        n.left = left
        left.parent = n
        left.flag = True
    if right is not None:
        n.right = right
        right.parent = n
        right.flag = False
    return n


def chain(depth, side):
    t = T(0)
    for d in range(depth):
        t = F('SUM', t, T(d + 1)) if side == 'L' else F('SUM', T(d + 1), t)
    return t


def full(depth, counter=[0]):
    if depth == 0:
        counter[0] += 1
        return T(counter[0] % 7)
    return F(('SUM', 'MUL', 'SUB', 'DIV')[depth % 4], full(depth - 1), full(depth - 1))


# 1. hand-built well-formed trees
well_formed = [
    T(0),
    F('EXP', T(1)),
    F('SUM', T(0), T(1)),
    F('SUM', F('EXP', T(2)), T(3)),
    F('MUL', T(4), F('SUB', T(5), T(6))),
    F('DIV', F('SUM', T(0), T(1)), F('MUL', T(2), T(3))),
    F('LOG', F('SQRT', F('ABS', F('SIN', F('COS', T(7)))))),
    F('SUB', F('SIN', F('SUM', T(1), F('COS', T(2)))), F('DIV', F('EXP', T(3)), T(4))),
    chain(12, 'L'),
    chain(12, 'R'),
    full(4),
    full(6),
    chain(400, 'L'),   # deeper than a recursive traversal would like
]
for k, t in enumerate(well_formed):
    put('well-formed', k)
    put_tree(t, positions=(k != len(well_formed) - 1))

# 2. degenerate shapes the traversals still accept
only_right = F('EXP', None, T(1))                        # unary function hanging on the right
both_missing = F('SUM')                                  # function without children
shared_leaf = T(3)
dag = F('SUM', shared_leaf, None)
dag.right = shared_leaf                                  # same node on both sides
shared_sub = F('EXP', T(2))
dag2 = F('MUL', F('SUM', shared_sub, T(1)), None)
dag2.right = shared_sub                                  # a sub-tree reachable twice
wrong_flags = F('SUM', T(0), T(1))
wrong_flags.left.flag = False
wrong_flags.right.flag = True
orphan = F('SUM', F('EXP', T(0)), T(1))
orphan.left.parent = None
for k, t in enumerate((only_right, both_missing, dag, dag2, wrong_flags, orphan)):
    put('degenerate', k)
    put_tree(t)

# 3. the module helpers on None and on non-nodes
put(attempt('props-none', lambda: node_module._properties(None)))
put(attempt('eval-none', lambda: node_module._evaluate(None)))
put(attempt('pre-none', lambda: Node.pre_order.fget(None)))
put(attempt('post-none', lambda: Node.post_order.fget(None)))
put(attempt('props-int', lambda: node_module._properties(3)))

# 4. seeded grown trees, deep copies, and sub-trees
for k, (functions, lo, hi, n_terminals) in enumerate((
        ([], 1, 3, 2), (['SUM'], 1, 5, 1), (['EXP', 'LOG'], 1, 6, 2), (['SUM', 'EXP'], 2, 6, 3),
        (ALL, 1, 5, 4), (ALL, 3, 7, 2), (ALL[::-1], 1, 8, 5), (['DIV', 'SUB', 'SQRT'], 4, 4, 2))):
    np.random.seed(31337 + k)
    space = TreeSpace(n_trees=6, n_terminals=n_terminals, n_variables=2, n_iterations=1,
                      min_depth=lo, max_depth=hi, functions=functions, lower_bound=[-1, 0], upper_bound=[1, 4])
    put('grown', k)
    for t in space.trees:
        put_tree(t)
        put_tree(copy.deepcopy(t))
    put_tree(space.best_tree)
    put_rng()


def sphere(x):
    return float(np.sum(x ** 2))


# 5. GP runs: n_nodes and find_node drive mutation and crossover points
for k, functions in enumerate((['SUM', 'SUB', 'MUL', 'DIV'], ALL, ['EXP', 'SIN', 'SUM'], ['ABS'])):
    np.random.seed(2718 + k)
    space = TreeSpace(n_trees=9, n_terminals=3, n_variables=2, n_iterations=7, min_depth=1, max_depth=5,
                      functions=functions, lower_bound=[-3, -3], upper_bound=[3, 3])
    g = GP(hyperparams={'p_reproduction': 0.3, 'p_mutation': 0.6, 'p_crossover': 0.7, 'prunning_ratio': 0.15 * k})

    def hook(optimizer, sp, fn):
        for t in sp.trees:
            put([(m.type, m.name, m.flag) for m in t.pre_order], [(m.type, m.name) for m in t.post_order],
                t.n_nodes, t.n_leaves, t.min_depth, t.max_depth)

    history = g.run(space, Function(pointer=sphere), pre_evaluation_hook=hook)
    for t in space.trees:
        put_tree(t)
    put_tree(space.best_tree)
    for a in space.agents:
        put_array(a.position)
        put(float(a.fit).hex())
    for (pos, fit) in history.best_agent:
        put_array(pos)
        put(float(fit).hex())
    put_rng()

print(H.hexdigest())
