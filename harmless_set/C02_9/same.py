"""Behaviour digest for HS / IHS (run, _update, _generate_new_harmony).

Run as:
    cd /tmp/harmless4/hs && PYTHONPATH=/tmp/harmless4/hs /venv/bin/python harmlessX/same.py

The last printed line is a sha256 digest over: every float produced (as float.hex),
the NumPy global random state after every scenario (so the number and order of random
draws is covered), the log messages emitted by the hs / ihs modules, identity / aliasing
patterns of the agents list, hook call traces and the type of every exception raised.
"""

import copy
import hashlib
import logging
import os
import warnings

import numpy as np

import opytimizer.optimizers.hs as hs_mod
import opytimizer.optimizers.ihs as ihs_mod
from opytimizer.core.agent import Agent
from opytimizer.core.function import Function
from opytimizer.spaces.search import SearchSpace

warnings.simplefilter('ignore')

OUT = []


def emit(*items):
    OUT.append(' '.join(str(i) for i in items))


def fx(v):
    """Canonical text of a number / array / nested structure (floats as float.hex)."""
    if isinstance(v, (list, tuple)):
        return '[' + ','.join(fx(i) for i in v) + ']'
    if isinstance(v, np.ndarray):
        return 'nd' + str(v.shape) + str(v.dtype) + fx(v.tolist())
    if isinstance(v, (bool, np.bool_)):
        return 'b' + str(bool(v))
    if isinstance(v, (float, np.floating)):
        return type(v).__name__ + ':' + float(v).hex()
    if isinstance(v, (int, np.integer)):
        return type(v).__name__ + ':' + str(int(v))
    return type(v).__name__ + ':' + repr(v)


def rng_tag():
    """Digest of the global NumPy random state."""
    st = np.random.get_state()
    hsh = hashlib.sha256()
    hsh.update(st[1].tobytes())
    hsh.update(str(st[2:]).encode())
    return hsh.hexdigest()[:16]


class Capture(logging.Handler):
    def __init__(self):
        super().__init__()
        self.records = []

    def emit(self, record):
        self.records.append(record.levelname + '|' + record.getMessage())


# Silences every opytimizer logger and captures what hs / ihs say
CAP = Capture()
for name, lg in list(logging.Logger.manager.loggerDict.items()):
    if name.startswith('opytimizer') and isinstance(lg, logging.Logger):
        for hd in list(lg.handlers):
            lg.removeHandler(hd)
            hd.close()
        if name in ('opytimizer.optimizers.hs', 'opytimizer.optimizers.ihs'):
            lg.addHandler(CAP)


def flush_log(tag):
    hsh = hashlib.sha256('\n'.join(CAP.records).encode()).hexdigest()[:16]
    emit(tag, 'log', len(CAP.records), hsh)
    CAP.records.clear()


# ---------------------------------------------------------------- objectives
def sphere(x):
    return np.sum(x ** 2)


def shifted(x):
    return float(np.sum((x - 1.5) ** 2))


def first_var(x):
    # Array-valued fitness of shape (n_dimensions,)
    return x[0] * 1.0


def nan_sometimes(x):
    s = np.sum(x)
    return np.nan if s > 5 else s


def raises_late(x):
    raises_late.calls += 1
    if raises_late.calls > 9:
        raise ArithmeticError('late')
    return np.sum(x)


raises_late.calls = 0


def describe_space(tag, space):
    for k, a in enumerate(space.agents):
        emit(tag, 'agent', k, fx(a.position), fx(a.fit), fx(a.lb), fx(a.ub))
    emit(tag, 'best', fx(space.best_agent.position), fx(space.best_agent.fit))
    emit(tag, 'best-is-agent', [space.best_agent is a for a in space.agents])


def describe_history(tag, history):
    emit(tag, 'store_best_only', history.store_best_only)
    for key in ('agents', 'best_agent'):
        if hasattr(history, key):
            val = getattr(history, key)
            emit(tag, key, len(val), fx(val))
        else:
            emit(tag, key, 'absent')
    emit(tag, 'hist-keys', sorted(history.__dict__.keys()))


# ---------------------------------------------------------------- run()
def make_hook(trace, mode):
    def hook(optimizer, space, function):
        trace.append((fx(optimizer.PAR), fx(optimizer.bw), rng_tag(),
                      fx(space.best_agent.fit), fx([a.fit for a in space.agents])))
        if mode == 'draw':
            # The hook itself consumes random numbers
            np.random.uniform()
        if mode == 'raise' and len(trace) == 4:
            raise KeyError('hook')
        if mode == 'rebind' and len(trace) == 3:
            # Replaces the best agent object and the agents list halfway through
            space.best_agent = copy.deepcopy(space.best_agent)
            space.agents = list(reversed(space.agents))
        if mode == 'iters' and len(trace) == 2:
            # Changes the number of iterations while running
            space.n_iterations = 3
    return hook


def run_case(tag, cls, seed, hyperparams, space_kw, objective, store_best_only=False,
             hook_mode=None, positional=False):
    np.random.seed(seed)
    raises_late.calls = 0
    trace = []
    space = None
    opt = None
    try:
        opt = cls(hyperparams=hyperparams)
        space = SearchSpace(**space_kw)
        func = Function(pointer=objective)
        agents_before = space.agents
        best_before = space.best_agent
        originals = list(space.agents)  # kept alive so that identities cannot be recycled
        hook = make_hook(trace, hook_mode) if hook_mode else None
        if positional:
            history = opt.run(space, func, store_best_only, hook)
        elif hook_mode == 'none-explicit':
            history = opt.run(space, func, store_best_only=store_best_only, pre_evaluation_hook=None)
        else:
            history = opt.run(space, func, store_best_only=store_best_only, pre_evaluation_hook=hook)
        emit(tag, 'history-type', type(history).__name__)
        describe_history(tag, history)
        emit(tag, 'same-list', space.agents is agents_before, 'same-best', space.best_agent is best_before)
        emit(tag, 'survivors', [[i for i, b in enumerate(originals) if b is a] for a in space.agents])
    except Exception as exc:  # noqa
        emit(tag, 'EXC', type(exc).__module__, type(exc).__name__, str(exc))
    if space is not None:
        describe_space(tag, space)
    if opt is not None:
        emit(tag, 'params', fx(opt.HMCR), fx(opt.PAR), fx(opt.bw))
    emit(tag, 'trace', len(trace), fx(trace))
    emit(tag, 'rng', rng_tag())
    flush_log(tag)


SP = dict(n_agents=6, n_variables=2, n_iterations=25, lower_bound=[-5, -3], upper_bound=[5, 7])
SP1 = dict(n_agents=1, n_variables=1, n_iterations=7, lower_bound=[0], upper_bound=[1])
SP2 = dict(n_agents=2, n_variables=3, n_iterations=1, lower_bound=[-1, 0, 2], upper_bound=[1, 0, 2])
SPBIG = dict(n_agents=15, n_variables=5, n_iterations=60, lower_bound=[-10] * 5, upper_bound=[10] * 5)

for cls in (hs_mod.HS, ihs_mod.IHS):
    c = cls.__name__
    for seed in (0, 1, 7, 12345):
        run_case(f'{c}/default/{seed}', cls, seed, {}, SP, sphere)
        run_case(f'{c}/tuned/{seed}', cls, seed, {'HMCR': 0.5, 'PAR': 0.3, 'bw': 2.5}, SP, shifted, hook_mode='plain')
    run_case(f'{c}/big', cls, 3, {'HMCR': 0.9, 'PAR': 0.5, 'bw': 0.25}, SPBIG, sphere)
    run_case(f'{c}/hmcr0', cls, 4, {'HMCR': 0, 'PAR': 1, 'bw': 1}, SP, sphere)
    run_case(f'{c}/hmcr1', cls, 5, {'HMCR': 1, 'PAR': 1, 'bw': 3}, SP, sphere)
    run_case(f'{c}/par0', cls, 6, {'HMCR': 1, 'PAR': 0, 'bw': 3}, SP, sphere)
    run_case(f'{c}/bw0', cls, 8, {'HMCR': 1.0, 'PAR': 1.0, 'bw': 0}, SP, sphere)
    run_case(f'{c}/one-agent', cls, 9, {}, SP1, sphere, hook_mode='plain')
    run_case(f'{c}/one-iter', cls, 10, {}, SP2, sphere)
    run_case(f'{c}/best-only', cls, 11, {}, SP, shifted, store_best_only=True)
    run_case(f'{c}/positional', cls, 12, {}, SP, shifted, store_best_only=True, hook_mode='plain', positional=True)
    run_case(f'{c}/hook-none', cls, 13, {}, SP, shifted, hook_mode='none-explicit')
    run_case(f'{c}/hook-draw', cls, 14, {}, SP, sphere, hook_mode='draw')
    run_case(f'{c}/hook-raise', cls, 15, {}, SP, sphere, hook_mode='raise')
    run_case(f'{c}/hook-rebind', cls, 16, {}, SP, sphere, hook_mode='rebind')
    run_case(f'{c}/hook-iters', cls, 17, {}, SP, sphere, hook_mode='iters')
    run_case(f'{c}/nan-obj', cls, 18, {}, SP, nan_sometimes)
    run_case(f'{c}/array-fit', cls, 19, {}, SP1, first_var)
    run_case(f'{c}/obj-raises', cls, 20, {}, SP, raises_late, hook_mode='plain')
    run_case(f'{c}/bad-hyper', cls, 21, {'HMCR': 1.5}, SP, sphere)
    run_case(f'{c}/bad-hyper2', cls, 21, {'bw': 'x'}, SP, sphere)

# IHS specific schedules (PAR / bw are recomputed every iteration)
IHS_PARAMS = [
    {'PAR_min': 0.1, 'PAR_max': 0.9, 'bw_min': 0.5, 'bw_max': 4.0},
    {'PAR_min': 0.35, 'PAR_max': 0.35, 'bw_min': 2, 'bw_max': 2},
    {'PAR_min': 0, 'PAR_max': 1, 'bw_min': 1, 'bw_max': 10},
    {'PAR_min': 0.0, 'PAR_max': 1.0, 'bw_min': 1e-300, 'bw_max': 1e300},
    {'PAR_min': 0.2, 'PAR_max': 0.7, 'bw_min': 0, 'bw_max': 10},      # log(0) -> -inf -> nan at t = 0
    {'PAR_min': 0.2, 'PAR_max': 0.7, 'bw_min': 0.0, 'bw_max': 10.0},
    {'PAR_min': 0.2, 'PAR_max': 0.7, 'bw_min': 0, 'bw_max': 0},       # ZeroDivisionError after PAR was set
    {'PAR_min': 0.2, 'PAR_max': 0.7, 'bw_min': 0.0, 'bw_max': 0.0},
    {'PAR_min': 0.3, 'PAR_max': 0.6, 'bw_min': 3, 'bw_max': 7, 'HMCR': 0.95, 'PAR': 0.01, 'bw': 99},
]
for k, hp in enumerate(IHS_PARAMS):
    for seed in (2, 31):
        run_case(f'IHS/sched{k}/{seed}', ihs_mod.IHS, seed, hp, SP, sphere, hook_mode='plain')
run_case('IHS/sched-iters', ihs_mod.IHS, 5, IHS_PARAMS[0], SP, shifted, hook_mode='iters')
run_case('IHS/sched-big', ihs_mod.IHS, 6, IHS_PARAMS[0], SPBIG, shifted)


# An IHS whose bounds are moved after construction (PAR_max < PAR_min is reachable that way)
def ihs_manual(tag, seed, par_min, par_max, bw_min, bw_max):
    np.random.seed(seed)
    opt = ihs_mod.IHS()
    opt._PAR_min, opt._PAR_max, opt._bw_min, opt._bw_max = par_min, par_max, bw_min, bw_max
    space = SearchSpace(**SP)
    try:
        history = opt.run(space, Function(pointer=sphere))
        describe_history(tag, history)
    except Exception as exc:  # noqa
        emit(tag, 'EXC', type(exc).__module__, type(exc).__name__, str(exc))
    describe_space(tag, space)
    emit(tag, 'params', fx(opt.PAR), fx(opt.bw), rng_tag())
    flush_log(tag)


ihs_manual('IHS/manual/neg-par', 1, 0.9, -0.5, 1, 10)      # PAR setter raises ValueError midway
ihs_manual('IHS/manual/big-par', 2, 0.5, 3.0, 1, 10)       # PAR grows beyond 1
ihs_manual('IHS/manual/neg-bw', 3, 0.1, 0.9, -1, 10)       # log of a negative -> nan
ihs_manual('IHS/manual/str', 4, 0.1, 0.9, 'a', 10)         # TypeError in the division


# ---------------------------------------------------------------- _update()
def make_agents(n, n_variables, n_dimensions, lb, ub):
    agents = []
    for _ in range(n):
        a = Agent(n_variables=n_variables, n_dimensions=n_dimensions)
        a.lb = np.array(lb, dtype=float)
        a.ub = np.array(ub, dtype=float)
        for j in range(n_variables):
            a.position[j] = np.random.uniform(lb[j], ub[j], n_dimensions)
        agents.append(a)
    return agents


def update_case(tag, seed, hyperparams, n, n_variables, n_dimensions, lb, ub, objective, steps, fits=None):
    np.random.seed(seed)
    opt = hs_mod.HS(hyperparams=hyperparams)
    func = Function(pointer=objective)
    agents = make_agents(n, n_variables, n_dimensions, lb, ub)
    for k, a in enumerate(agents):
        a.fit = func.pointer(a.position) if fits is None else fits[k]
    for s in range(steps):
        before = list(agents)
        snap = [(a.position.copy(), copy.deepcopy(a.fit)) for a in agents]
        try:
            ret = opt._update(agents, func)
            emit(tag, s, 'ret', repr(ret))
        except Exception as exc:  # noqa
            emit(tag, s, 'EXC', type(exc).__module__, type(exc).__name__, str(exc))
        # Which objects survived, in which order, and were the survivors left untouched
        order = [[i for i, b in enumerate(before) if b is a] for a in agents]
        emit(tag, s, 'order', order, 'len', len(agents))
        for a in agents:
            idx = [i for i, b in enumerate(before) if b is a]
            if idx:
                p, f = snap[idx[0]]
                emit(tag, s, 'untouched', bool(np.array_equal(p, a.position, equal_nan=True)), fx(f) == fx(a.fit))
        # No two entries share a position buffer
        emit(tag, s, 'shared', [[bool(np.shares_memory(a.position, b.position)) for b in agents] for a in agents])
        for a in agents:
            emit(tag, s, fx(a.position), fx(a.fit), fx(a.lb), fx(a.ub))
        emit(tag, s, 'rng', rng_tag())
    flush_log(tag)


for seed in (0, 1, 2, 3, 44):
    update_case(f'upd/basic/{seed}', seed, {}, 5, 2, 1, [-5, -5], [5, 5], sphere, 12)
    update_case(f'upd/dims/{seed}', seed, {'HMCR': 0.5, 'bw': 0.3}, 4, 3, 4, [-1, 0, 2], [1, 3, 9], sphere, 12)
update_case('upd/single', 5, {}, 1, 2, 1, [-5, -5], [5, 5], sphere, 10)
update_case('upd/ties', 6, {'HMCR': 1, 'PAR': 0}, 4, 1, 1, [0], [1], lambda x: 1.0, 6)
update_case('upd/ties-sort', 6, {'HMCR': 0}, 5, 1, 1, [0], [1], lambda x: float(np.round(np.sum(x) * 2)), 10)
update_case('upd/nan', 7, {}, 4, 2, 1, [0, 0], [10, 10], nan_sometimes, 10)
update_case('upd/nan-fits', 8, {}, 4, 1, 1, [0], [1], sphere, 6, fits=[np.nan, 0.5, np.nan, 0.2])
update_case('upd/inf-fits', 8, {}, 3, 1, 1, [0], [1], sphere, 6, fits=[np.inf, np.inf, np.inf])
update_case('upd/array-fit', 9, {}, 3, 2, 1, [0, 0], [1, 1], first_var, 8)
update_case('upd/array-fit-dims', 9, {}, 3, 2, 3, [0, 0], [1, 1], first_var, 3)  # ambiguous truth value
update_case('upd/empty', 10, {}, 0, 1, 1, [0], [1], sphere, 2)
update_case('upd/obj-raises', 11, {}, 3, 1, 1, [0], [1], lambda x: 1 / 0, 2, fits=[0.3, 0.1, 0.2])


# ---------------------------------------------------------------- _generate_new_harmony()
def harmony_case(tag, seed, hyperparams, n_variables, n_dimensions, lb, ub, reps, mutate=None):
    np.random.seed(seed)
    opt = hs_mod.HS(hyperparams=hyperparams)
    src = make_agents(1, n_variables, n_dimensions, lb, ub)[0]
    src.fit = 3.25
    if mutate:
        mutate(src)
    for k in range(reps):
        pos0 = copy.deepcopy(src.position)
        try:
            new = opt._generate_new_harmony(src)
            emit(tag, k, type(new).__name__, 'is-src', new is src,
                 'shares', bool(np.shares_memory(np.asarray(new.position), np.asarray(src.position))),
                 bool(np.shares_memory(np.asarray(new.lb), np.asarray(src.lb))))
            emit(tag, k, fx(new.position), fx(new.fit), fx(new.lb), fx(new.ub), new.n_variables, new.n_dimensions)
        except Exception as exc:  # noqa
            emit(tag, k, 'EXC', type(exc).__module__, type(exc).__name__, str(exc))
        emit(tag, k, 'src-unchanged', fx(pos0) == fx(src.position), fx(src.fit), 'rng', rng_tag())
    flush_log(tag)


for seed in (0, 1, 2, 99):
    harmony_case(f'gen/default/{seed}', seed, {}, 3, 1, [-1, 0, 5], [1, 2, 6], 25)
    harmony_case(f'gen/dims/{seed}', seed, {'HMCR': 0.4, 'PAR': 0.6, 'bw': 0.125}, 2, 5, [-1, 0], [1, 2], 25)
harmony_case('gen/hmcr0', 3, {'HMCR': 0}, 2, 2, [0, 0], [1, 1], 6)
harmony_case('gen/hmcr1-par1', 4, {'HMCR': 1, 'PAR': 1, 'bw': 7}, 2, 2, [0, 0], [1, 1], 6)
harmony_case('gen/hmcr1-par0', 5, {'HMCR': 1, 'PAR': 0, 'bw': 7}, 2, 2, [0, 0], [1, 1], 6)
harmony_case('gen/bw0', 6, {'HMCR': 1, 'PAR': 1, 'bw': 0}, 2, 2, [0, 0], [1, 1], 6)
harmony_case('gen/lb-gt-ub', 7, {'HMCR': 0}, 2, 1, [1, 5], [0, -5], 4)


def nan_bounds(a):
    a.lb = np.array([np.nan, 0.0])


def inf_bounds(a):
    a.lb = np.array([-np.inf, 0.0])
    a.ub = np.array([np.inf, 1.0])


harmony_case('gen/nan-bounds', 8, {'HMCR': 0}, 2, 1, [0, 0], [1, 1], 3, mutate=nan_bounds)
harmony_case('gen/inf-bounds', 8, {'HMCR': 0}, 2, 1, [0, 0], [1, 1], 3, mutate=inf_bounds)


def short_ub(a):
    a.ub = np.array([1.0])


def int_position(a):
    a.position = np.array([[1], [2]])


def list_position(a):
    a.position = [[0.5], [0.25]]


def extra_attr(a):
    a.tag = ['x']


harmony_case('gen/short-ub', 9, {'HMCR': 0}, 3, 1, [0, 0, 0], [1, 1, 1], 3, mutate=short_ub)
harmony_case('gen/int-pos', 10, {'HMCR': 1, 'PAR': 1, 'bw': 2}, 2, 1, [0, 0], [9, 9], 4, mutate=int_position)
harmony_case('gen/int-pos-rand', 10, {'HMCR': 0}, 2, 1, [0, 0], [9, 9], 3, mutate=int_position)
harmony_case('gen/list-pos', 11, {'HMCR': 1, 'PAR': 1, 'bw': 2}, 2, 1, [0, 0], [9, 9], 4, mutate=list_position)
harmony_case('gen/list-pos-rand', 11, {'HMCR': 0}, 2, 1, [0, 0], [9, 9], 3, mutate=list_position)
harmony_case('gen/extra-attr', 12, {}, 2, 1, [0, 0], [9, 9], 3, mutate=extra_attr)

# A non-agent argument
np.random.seed(13)
for bad in (None, 5, 'agent'):
    try:
        hs_mod.HS()._generate_new_harmony(bad)
        emit('gen/bad', repr(bad), 'no-exc')
    except Exception as exc:  # noqa
        emit('gen/bad', repr(bad), type(exc).__name__, rng_tag())
flush_log('gen/bad')

# Public surface of the classes (names of the attributes a caller can see)
for cls in (hs_mod.HS, ihs_mod.IHS):
    public = sorted(n for n in dir(cls) if not n.startswith('_'))
    emit('surface', cls.__name__, public)

text = '\n'.join(OUT)
if os.environ.get('SAME_DUMP'):
    with open(os.environ['SAME_DUMP'], 'w') as dump_file:
        dump_file.write(text)
print(f'{len(OUT)} lines, {len(text)} characters')
print(hashlib.sha256(text.encode()).hexdigest())
