"""Digest of the benchmark functions on seeded and edge-case inputs.

Run as: cd /tmp/harmless/C17 && PYTHONPATH=/tmp/harmless/C17 /venv/bin/python harmlessX/same.py
The printed sha256 must be identical with and without the patch.
"""
import hashlib
import warnings

import numpy as np

from opytimizer.core.function import Function
from opytimizer.math import benchmark as b

warnings.simplefilter('ignore')
np.seterr(all='ignore')

# name -> documented box
FUNCS = {
    'ackley1': (-35, 35), 'alpine1': (-10, 10), 'alpine2': (0, 10),
    'brown': (-1, 4), 'chung_reynolds': (-100, 100),
    'cosine_mixture': (-1, 1), 'csendes': (-1, 1), 'deb1': (-1, 1),
    'deb2': (-1, 1), 'exponential': (-1, 1), 'quintic': (-10, 10),
    'rastringin': (-5.12, 5.12), 'salomon': (-100, 100),
    'schumer_steiglitz': (-100, 100), 'schwefel': (-500, 500),
    'sphere': (-5.12, 5.12), 'styblinski_tang': (-5, 5),
}

h = hashlib.sha256()


def put(tag, value):
    """Feeds a tagged result (value, dtype/type and shape) into the digest."""
    if isinstance(value, np.ndarray):
        body = ','.join(float(v).hex() for v in value.ravel())
        rep = 'nd:%s:%s:%s' % (value.dtype, value.shape, body)
    elif isinstance(value, (float, np.floating, int, np.integer)):
        rep = '%s:%s' % (type(value).__name__, float(value).hex())
    else:
        rep = '%s:%r' % (type(value).__name__, value)
    h.update(('%s=%s\n' % (tag, rep)).encode())


def call(tag, f, x):
    """Calls f(x) and records the value or the exception type and message."""
    try:
        put(tag, f(x))
    except Exception as e:  # recorded, compared across versions
        put(tag, 'EXC %s: %s' % (type(e).__name__, e))


rng = np.random.default_rng(170017)
for name, (lo, hi) in FUNCS.items():
    f = getattr(b, name)
    # seeded points of the documented box, several dimensions, 1-D and (n, 1)
    for n in (1, 2, 3, 5, 10, 31, 100, 1000):
        for k in range(6):
            x = rng.uniform(lo, hi, n)
            call('%s/u/%d/%d' % (name, n, k), f, x)
            call('%s/col/%d/%d' % (name, n, k), f, x.reshape(n, 1))
        # corners, axis points, centre, zeros, ones
        for c in (lo, hi, 0.0, 1.0, -1.0, 0.5 * (lo + hi), 0.1, 2.0 ** -30):
            call('%s/const/%d/%r' % (name, n, c), f, np.full(n, float(c)))
        e = np.zeros(n)
        e[-1] = hi
        call('%s/axis_hi/%d' % (name, n), f, e)
        e = np.zeros(n)
        e[0] = lo
        call('%s/axis_lo/%d' % (name, n), f, e)
        # alternating corners
        alt = np.where(np.arange(n) % 2 == 0, float(lo), float(hi))
        call('%s/alt/%d' % (name, n), f, alt)
    # known minimisers
    for n in (1, 2, 4, 7):
        call('%s/min/-2.903534/%d' % (name, n), f, np.full(n, -2.903534))
        call('%s/min/7.917/%d' % (name, n), f, np.full(n, 7.917))
        call('%s/min/420.9687/%d' % (name, n), f, np.full(n, 420.9687))
        call('%s/min/0.1/%d' % (name, n), f, np.full(n, 0.1))
    # other dtypes and layouts
    xi = np.arange(-3, 4)
    call('%s/int64' % name, f, xi)
    call('%s/int32' % name, f, xi.astype(np.int32))
    call('%s/f32' % name, f, rng.uniform(lo, hi, 9).astype(np.float32))
    call('%s/f16' % name, f, rng.uniform(lo, hi, 9).astype(np.float16))
    call('%s/bool' % name, f, np.array([True, False, True]))
    call('%s/cplx' % name, f, np.array([1 + 2j, 0.5 - 1j]))
    call('%s/2d' % name, f, rng.uniform(lo, hi, (4, 3)))
    call('%s/3d' % name, f, rng.uniform(lo, hi, (2, 3, 2)))
    call('%s/strided' % name, f, rng.uniform(lo, hi, 20)[::3])
    call('%s/obj' % name, f, np.array([1.5, 2.5, -0.5], dtype=object))
    # special values
    call('%s/nan' % name, f, np.array([np.nan, 1.0]))
    call('%s/inf' % name, f, np.array([np.inf, 1.0]))
    call('%s/ninf' % name, f, np.array([1.0, -np.inf]))
    call('%s/huge' % name, f, np.array([1e200, -1e200, 1e-200]))
    call('%s/tiny' % name, f, np.array([5e-324, -5e-324]))
    call('%s/negzero' % name, f, np.array([-0.0, 0.0]))
    # malformed inputs: same exception (type and message) is required
    call('%s/empty' % name, f, np.array([]))
    call('%s/empty2d' % name, f, np.zeros((0, 1)))
    call('%s/0d' % name, f, np.array(1.5))
    call('%s/npfloat' % name, f, np.float64(1.5))
    call('%s/pyfloat' % name, f, 1.5)
    call('%s/pyint' % name, f, 2)
    call('%s/list' % name, f, [1.0, 2.0])
    call('%s/tuple' % name, f, (1.0, 2.0))
    call('%s/none' % name, f, None)
    call('%s/str' % name, f, 'abc')
    # through the library's Function wrapper
    fn = Function(pointer=f)
    call('%s/Function' % name, fn, rng.uniform(lo, hi, (6, 1)))
    call('%s/Function.pointer' % name, fn.pointer, rng.uniform(lo, hi, 6))

# the public surface of the module (names a user can import)
put('public', sorted(n for n in dir(b) if not n.startswith('_')))

print(h.hexdigest())
