"""Exercises the Agent setters (n_variables, n_dimensions) and prints a digest."""
import hashlib
import logging

import numpy as np

from opytimizer.core import agent, function
from opytimizer.optimizers import gp, pso
from opytimizer.spaces import search, tree

OUT = []


class Capture(logging.Handler):
    """Records what the library's error classes write to the log."""

    def emit(self, record):
        OUT.append(f'log|{record.name}|{record.levelname}|{record.getMessage()}')


# Silence the console/file handlers; keep (and digest) the error log lines
for _name, _lg in list(logging.root.manager.loggerDict.items()):
    if _name.startswith('opytimizer') and isinstance(_lg, logging.Logger):
        _lg.handlers = [Capture() if _name == 'opytimizer.utils.exception' else logging.NullHandler()]


def rec(*items):
    OUT.append('|'.join(str(i) for i in items))


def enc(v):
    """Encodes a value exactly (type + bit pattern for floats)."""
    if isinstance(v, float):
        return f'{type(v).__name__}:{float(v).hex()}'
    if isinstance(v, np.ndarray):
        return f'ndarray:{v.dtype}:{v.shape}:{v.tobytes().hex()}'
    if isinstance(v, (list, tuple)):
        return f'{type(v).__name__}[' + ','.join(enc(x) for x in v) + ']'
    return f'{type(v).__name__}:{v!r}'


class MyFloat(float):
    pass


class MyInt(int):
    pass


class OddInt(int):
    """An integer whose ordering says it is never positive."""

    def __le__(self, other):
        return True


class Weird:
    """Not a number, but comparable."""

    def __lt__(self, other):
        return False

    def __repr__(self):
        return 'Weird()'


PROBES = [
    0, 1, -1, 2, 10 ** 30, -10 ** 30, True, False,
    0.0, -0.0, 0.5, 1.0, -0.5, 1e-320, -1e-320, 1e308, -1e308,
    float('nan'), float('inf'), float('-inf'),
    np.float64(0.3), np.float64(-0.3), np.float64('nan'), np.float32(0.3),
    np.float16(0.3), np.int64(3), np.int32(-3), np.bool_(True),
    MyFloat(0.25), MyFloat(-0.25), MyInt(4), MyInt(-4), MyInt(0), OddInt(5), 3, 7,
    'a', '', b'1', None, [1.0], (1.0,), {}, {1}, 1j, complex(1, 0),
    np.array(0.5), np.array([0.5]), np.array([0.5, -1.0]), Weird(), object, int, float,
]


def probe_setters():
    for name in ['n_variables', 'n_dimensions']:
        a = agent.Agent(n_variables=2, n_dimensions=3)
        for k, v in enumerate(PROBES):
            before = getattr(a, name)
            pos, lb, ub, fit = a.position, a.lb, a.ub, a.fit
            try:
                setattr(a, name, v)
                after = getattr(a, name)
                rec(name, k, 'ok', enc(after), after is v, a.__dict__['_' + name] is v)
            except BaseException as ex:  # pylint: disable=broad-except
                after = getattr(a, name)
                rec(name, k, 'exc', type(ex).__module__, type(ex).__name__,
                    [enc(x) if not isinstance(x, str) else x for x in ex.args],
                    str(ex), after is before)
            # The setters never touch the arrays
            rec(name, k, 'state', a.position is pos, a.lb is lb, a.ub is ub, a.fit is fit,
                enc(a.position), sorted(a.__dict__))


def probe_constructor():
    cases = [
        (), (1,), (1, 1), (3, 2), (2, 5), (True, True), (MyInt(2), MyInt(3)),
        (0, 1), (1, 0), (0, 0), (-1, 2), (2, -1), (-3, -3),
        (1.0, 1), (1, 1.0), ('1', 1), (1, '1'), (None, 1), (1, None), ('x', 'y'), (0.0, -1),
        (np.int64(2), 1), (1, np.int64(2)), ([1], 1), (OddInt(2), 1), (2, OddInt(1)),
        (-1, 'y'), ('x', -1),
    ]
    for k, args in enumerate(cases):
        try:
            a = agent.Agent(*args)
            rec('ctor', k, 'ok', enc(a.n_variables), enc(a.n_dimensions), enc(a.position),
                enc(a.lb), enc(a.ub), enc(a.fit), sorted(a.__dict__))
        except BaseException as ex:  # pylint: disable=broad-except
            rec('ctor', k, 'exc', type(ex).__module__, type(ex).__name__, ex.args, str(ex))
    for k, kwargs in enumerate([{'n_variables': 2}, {'n_dimensions': 2}, {'n_dimensions': 0},
                                {'n_variables': 'q', 'n_dimensions': 0}]):
        try:
            a = agent.Agent(**kwargs)
            rec('ctor-kw', k, 'ok', enc(a.n_variables), enc(a.n_dimensions), enc(a.position))
        except BaseException as ex:  # pylint: disable=broad-except
            rec('ctor-kw', k, 'exc', type(ex).__module__, type(ex).__name__, ex.args, str(ex))


def probe_spaces():
    """Agents are created by the spaces; invalid sizes must fail in the same place."""
    cases = [
        dict(n_agents=2, n_variables=2, n_iterations=3, lower_bound=[0, 0], upper_bound=[1, 1]),
        dict(n_agents=1, n_variables=1, n_iterations=1, lower_bound=[-1], upper_bound=[1]),
        dict(n_agents=2, n_variables=0, n_iterations=3, lower_bound=[], upper_bound=[]),
        dict(n_agents=2, n_variables=2.0, n_iterations=3, lower_bound=[0, 0], upper_bound=[1, 1]),
        dict(n_agents=2, n_variables=True, n_iterations=3, lower_bound=[0], upper_bound=[1]),
    ]
    for k, kw in enumerate(cases):
        np.random.seed(100 + k)
        try:
            sp = search.SearchSpace(**kw)
            rec('space', k, 'ok', [enc(a.position) for a in sp.agents],
                [(enc(a.n_variables), enc(a.n_dimensions)) for a in sp.agents],
                enc(sp.best_agent.position), np.random.random_sample().hex())
        except BaseException as ex:  # pylint: disable=broad-except
            rec('space', k, 'exc', type(ex).__module__, type(ex).__name__, ex.args, str(ex),
                np.random.random_sample().hex())


def sphere(x):
    return np.sum(x ** 2)


def seeded_runs():
    for seed, n_agents, n_vars, n_iter in [(0, 5, 2, 8), (1, 3, 1, 5), (2, 4, 4, 6)]:
        np.random.seed(seed)
        space = search.SearchSpace(n_agents=n_agents, n_variables=n_vars, n_iterations=n_iter,
                                   lower_bound=[-5] * n_vars, upper_bound=[5] * n_vars)
        hist = pso.PSO().run(space, function.Function(pointer=sphere))
        for it, (agents, best) in enumerate(zip(hist.agents, hist.best_agent)):
            rec('run', seed, it,
                [[[float(x).hex() for x in row] for row in a[0]] for a in agents],
                [float(a[1]).hex() for a in agents],
                [[float(x).hex() for x in row] for row in best[0]], float(best[1]).hex())
        rec('run-final', seed, enc(space.best_agent.position), enc(float(space.best_agent.fit)),
            np.random.random_sample().hex())

    # A tree space builds its terminals out of agents
    np.random.seed(7)
    tspace = tree.TreeSpace(n_trees=4, n_terminals=3, n_variables=2, n_iterations=4,
                            min_depth=1, max_depth=3, functions=['SUM', 'SUB', 'MUL'],
                            lower_bound=[-2, -2], upper_bound=[2, 2])
    rec('tree', [enc(t.position) for t in tspace.terminals], [str(t) for t in tspace.trees])
    hist = gp.GP().run(tspace, function.Function(pointer=sphere))
    rec('tree-run', [float(b[1]).hex() for b in hist.best_agent],
        enc(tspace.best_agent.position), np.random.random_sample().hex())


probe_setters()
probe_constructor()
probe_spaces()
seeded_runs()

digest = hashlib.sha256('\n'.join(OUT).encode()).hexdigest()
print(len(OUT), 'records')
print(digest)
