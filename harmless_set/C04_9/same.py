"""Exercises opytimizer.utils.history.History (__str__, _parse, dump, get, save, load)
on seeded inputs and edge cases; prints a sha256 digest as the last line."""

import contextlib
import hashlib
import io
import os
import pickle
import re
import tempfile

import numpy as np

from opytimizer import Opytimizer
from opytimizer.core import agent as agent_mod
from opytimizer.core.function import Function
from opytimizer.optimizers.aiwpso import AIWPSO
from opytimizer.optimizers.pso import PSO
from opytimizer.spaces.search import SearchSpace
from opytimizer.utils import history as history_mod
from opytimizer.utils.history import History

LINES = []
TMP = [None]


def clean(text):
    """Removes run-dependent parts (temporary directory, memory addresses) from a message."""

    if TMP[0] is not None:
        text = text.replace(TMP[0], '<TMP>')
    return re.sub(r'0x[0-9a-fA-F]+', '0x?', text)


def enc(x):
    """Canonical, bit-exact text encoding of a result."""

    if x is None:
        return 'None'
    if isinstance(x, (bool, np.bool_)):
        return f'bool:{bool(x)}'
    if isinstance(x, (int, np.integer)):
        return f'int:{int(x)}'
    if isinstance(x, (float, np.floating)):
        return f'float:{float(x).hex()}'
    if isinstance(x, str):
        return f'str:{x!r}'
    if isinstance(x, np.ndarray):
        if x.dtype == object:
            return f'objarr{x.shape}[' + ','.join(enc(v) for v in x.ravel().tolist()) + ']'
        return f'arr:{x.dtype}{x.shape}[' + ','.join(enc(v) for v in x.ravel().tolist()) + ']'
    if isinstance(x, tuple):
        return 'tuple(' + ','.join(enc(v) for v in x) + ')'
    if isinstance(x, list):
        return 'list[' + ','.join(enc(v) for v in x) + ']'
    if isinstance(x, dict):
        return 'dict{' + ','.join(f'{k!r}:{enc(x[k])}' for k in x) + '}'
    return f'obj:{type(x).__name__}'


def rec(label, value):
    LINES.append(f'{label} = {enc(value)}')


def attempt(label, fn):
    """Records the result of fn() or the type and message of the exception it raises."""

    try:
        out = fn()
    except BaseException as ex:  # noqa
        LINES.append(clean(f'{label} ! {type(ex).__module__}.{type(ex).__name__}: {ex}'))
        return None
    rec(label, out)
    return out


def state(h):
    """The whole instance dictionary, in insertion order."""

    return {k: v for k, v in h.__dict__.items()}


def printed(h, how=str):
    buf = io.StringIO()
    with contextlib.redirect_stdout(buf):
        ret = how(h)
    return (ret, buf.getvalue())


def make_agents(rng, n_agents, n_variables, n_dimensions, array_fit=False):
    agents = []
    for _ in range(n_agents):
        a = agent_mod.Agent(n_variables=n_variables, n_dimensions=n_dimensions)
        a.position = rng.uniform(-10, 10, size=(n_variables, n_dimensions))
        if array_fit:
            a.fit = rng.uniform(0, 1, size=(1,))
        else:
            a.fit = float(rng.uniform(0, 100))
        agents.append(a)
    return agents


# ---------------------------------------------------------------- 1. module / class surface
rec('module.public', sorted(n for n in vars(history_mod) if not n.startswith('__') and n not in ('copy', 'pickle', 'np', 'c', 'e')
                            and not n.startswith('_')))
rec('class.attrs', sorted(n for n in vars(History) if not n.startswith('__')))

# ---------------------------------------------------------------- 2. _parse
for seed in (0, 1, 2):
    rng = np.random.RandomState(seed)
    h = History()
    ags = make_agents(rng, 3 + seed, 2 + seed, 1 + (seed % 2), array_fit=(seed == 2))
    rec(f'parse.agents.{seed}', h._parse('agents', ags))
    rec(f'parse.best.{seed}', h._parse('best_agent', ags[-1]))
    rec(f'parse.local.{seed}', h._parse('local', [rng.uniform(size=(2, 1)) for _ in range(3)]))
    rec(f'parse.local.arr.{seed}', h._parse('local', rng.uniform(size=(3, 2, 1))))
    rec(f'parse.other.{seed}', h._parse('time', 3.5))
    rec(f'parse.agents.empty.{seed}', h._parse('agents', []))
    rec(f'parse.local.empty.{seed}', h._parse('local', []))
    attempt(f'parse.agents.bad.{seed}', lambda: h._parse('agents', [1, 2]))
    attempt(f'parse.agents.notiter.{seed}', lambda: h._parse('agents', 5))
    attempt(f'parse.best.bad.{seed}', lambda: h._parse('best_agent', None))
    attempt(f'parse.local.bad.{seed}', lambda: h._parse('local', [1.0]))
    attempt(f'parse.unhashable.{seed}', lambda: h._parse(['agents'], ags))
    rec(f'parse.state.{seed}', state(h))

# deep copy of the fitness: the record must not alias an array-valued fitness
rng = np.random.RandomState(7)
ags = make_agents(rng, 2, 2, 1, array_fit=True)
h = History()
p = h._parse('agents', ags)
rec('parse.alias.agents', [r[1] is a.fit for r, a in zip(p, ags)])
b = h._parse('best_agent', ags[0])
rec('parse.alias.best', b[1] is ags[0].fit)
ags[0].fit[0] = -1.0
rec('parse.alias.after', (p[0][1], b[1]))


# order of the key comparisons made by _parse
class Key:
    def __init__(self, name):
        self.name = name
        self.seen = []

    def __eq__(self, other):
        self.seen.append(other)
        return self.name == other

    def __hash__(self):
        return hash(self.name)


for name in ('agents', 'best_agent', 'local', 'zzz'):
    k = Key(name)
    val = {'agents': [], 'best_agent': ags[1], 'local': [], 'zzz': 0}[name]
    rec(f'parse.keyorder.{name}', (History()._parse(k, val), k.seen))

# ---------------------------------------------------------------- 3. dump
for seed in (3, 4, 5):
    for best_only in (False, True):
        rng = np.random.RandomState(seed)
        h = History(store_best_only=best_only)
        marker = object()
        shared = [1, 2, 3]
        for t in range(4):
            ags = make_agents(rng, 4, 3, 1 + (seed % 2))
            local = [rng.uniform(size=(3, 1)) for _ in range(4)]
            ret = h.dump(agents=ags, local=local, best_agent=ags[t], time=float(t) / 3, marker=marker, shared=shared)
            rec(f'dump.ret.{seed}.{best_only}.{t}', ret)
            rec(f'dump.keys.{seed}.{best_only}.{t}', list(h.__dict__.keys()))
        rec(f'dump.state.{seed}.{best_only}', state(h))
        rec(f'dump.identity.{seed}.{best_only}', [m is marker for m in h.marker] + [s is shared for s in h.shared])
        rec(f'dump.hasagents.{seed}.{best_only}', (hasattr(h, 'agents'), hasattr(h, 'local'), hasattr(h, 'best_agent')))
        # the list stored on the first dump is the one appended to afterwards
        first = h.time
        h.dump(time=9.0)
        rec(f'dump.samelist.{seed}.{best_only}', (first is h.time, len(first)))
        # different order of keys
        h2 = History(store_best_only=best_only)
        h2.dump(zeta=1, best_agent=ags[0], alpha=2, agents=ags)
        h2.dump(alpha=3, agents=ags, beta=None)
        rec(f'dump.order.{seed}.{best_only}', state(h2))

h = History()
rec('dump.nothing', (h.dump(), state(h)))

# names that already exist on the object / class (or that a refactoring could introduce)
for name in ('dump', 'get', 'save', 'load', '_parse', 'store_best_only', '__str__', '__dict__', '__class__',
             '_store', '_append', '_record', '_set', '_add', '_put', '_push', '_dump', '_dump_one', '_dump_pair',
             '_store_value', '_append_value', '_parse_agents', '_parse_best_agent', '_parse_local', '_parsers',
             '_should_skip', '_skip', '_load', '_save', '_slice', '_to_array', '_as_array', '_gather', '_print',
             'k', 'v', 'out', 'key', 'value', 'kwargs', 'h', 'attr', 'index'):
    for best_only in (False, True):
        h = History(store_best_only=best_only)
        attempt(f'dump.name.{name}.{best_only}', lambda: h.dump(**{name: 1.5}))
        attempt(f'dump.name2.{name}.{best_only}', lambda: h.dump(**{name: 2.5}))
        d = {k: v for k, v in h.__dict__.items() if k != '__dict__'}
        rec(f'dump.name.state.{name}.{best_only}', d)

attempt('dump.self', lambda: History().dump(self=1))
attempt('dump.positional', lambda: History().dump(1))
h = History()
attempt('dump.bad.agents', lambda: h.dump(first=1, agents=5, last=2))
rec('dump.bad.agents.state', state(h))
h = History(store_best_only=True)
attempt('dump.bad.agents.bestonly', lambda: h.dump(first=1, agents=5, local=7, last=2))
rec('dump.bad.agents.bestonly.state', state(h))
h = History(store_best_only=True)
attempt('dump.bad.best.bestonly', lambda: h.dump(first=1, best_agent=5, last=2))
rec('dump.bad.best.bestonly.state', state(h))
# a non-list attribute that already exists
h = History()
h.time = (1, 2)
attempt('dump.tuple.attr', lambda: h.dump(before=0, time=1.0, after=2))
rec('dump.tuple.attr.state', state(h))
# truthy / falsy non-boolean store_best_only
for flag in (0, 1, '', 'x', None, [], [0]):
    h = History(store_best_only=flag)
    ags = make_agents(np.random.RandomState(11), 2, 2, 1)
    h.dump(agents=ags, best_agent=ags[0], local=[np.ones((2, 1))], x=1)
    rec(f'dump.flag.{flag!r}', list(h.__dict__.keys()))

# ---------------------------------------------------------------- 4. get
for seed in (6, 7):
    rng = np.random.RandomState(seed)
    h = History()
    for t in range(3 + seed % 2):
        ags = make_agents(rng, 3, 2, 1 + seed % 2)
        h.dump(agents=ags, best_agent=ags[0], local=[rng.uniform(size=(2, 1 + seed % 2)) for _ in range(3)],
               time=float(rng.uniform()), vec=rng.uniform(size=3), lst=[1.0, 2.0])
    for key in ('agents', 'best_agent', 'local', 'time', 'vec', 'lst', 'missing', 'store_best_only', 'dump'):
        for index in ((), (0,), (1,), (2,), (-1,), (5,), (0, 0), (0, 1), (1, 1), (2, 1), (0, 2), (0, 0, 0), (0, 0, 1),
                      (1, 1, 0), (0, 0, 0, 0), (slice(None),), (slice(0, 2), 0), (slice(None), 1), ([0, 1], 0),
                      0, [0], None, 'a', (None,), ('a',), (0.5,), 1.0):
            attempt(f'get.{seed}.{key}.{index!r}', lambda: h.get(key, index))
        attempt(f'get.kw.{seed}.{key}', lambda: h.get(key=key, index=(0,)))
    rec(f'get.state.{seed}', state(h))
    # the result is a fresh array, not the stored record
    g = attempt(f'get.fresh.{seed}', lambda: h.get('local', (0, 0)))
    if g is not None:
        g[...] = 0
        rec(f'get.fresh.after.{seed}', h.local)

h = History()
attempt('get.empty.nokey', lambda: h.get('agents', (0, 0)))
h.empty = []
attempt('get.empty.list', lambda: h.get('empty', ()))
attempt('get.empty.list1', lambda: h.get('empty', (0,)))
attempt('get.nonstr.key', lambda: h.get(3, (0,)))
attempt('get.nonstr.key.badindex', lambda: h.get(3, 0))
attempt('get.missing.badindex', lambda: h.get('missing', 0))
h.ragged = [[1.0, 2.0], [3.0]]
attempt('get.ragged', lambda: h.get('ragged', ()))
attempt('get.ragged1', lambda: h.get('ragged', (0,)))
h.scalar = 5.0
attempt('get.scalar', lambda: h.get('scalar', ()))
h.arr = np.arange(6.0).reshape(3, 2)
attempt('get.arr', lambda: h.get('arr', (0,)))
attempt('get.arr.all', lambda: h.get('arr', (slice(None),)))


class TupleSub(tuple):
    pass


h.dump(m=np.arange(4.0).reshape(2, 2))
h.dump(m=np.arange(4.0, 8.0).reshape(2, 2))
attempt('get.tuplesub', lambda: h.get('m', TupleSub((0, 1))))
attempt('get.m.row', lambda: h.get('m', (0, slice(None))))

# array-valued fitness
rng = np.random.RandomState(8)
h = History()
for t in range(3):
    ags = make_agents(rng, 2, 2, 1, array_fit=True)
    h.dump(agents=ags, best_agent=ags[1])
for index in ((0, 0), (0, 1), (1, 1), (1,), (0,), (0, 0, 0)):
    attempt(f'get.arrfit.agents.{index}', lambda: h.get('agents', index))
    attempt(f'get.arrfit.best.{index}', lambda: h.get('best_agent', index))

# ---------------------------------------------------------------- 5. __str__
for seed in (9, 10):
    for best_only in (False, True):
        rng = np.random.RandomState(seed)
        h = History(store_best_only=best_only)
        attempt(f'str.empty.{seed}.{best_only}', lambda: printed(h))
        for t in range(3):
            ags = make_agents(rng, 2 + seed % 2, 2, 1, array_fit=(seed == 10))
            h.dump(agents=ags, best_agent=ags[0], time=1.0)
        attempt(f'str.{seed}.{best_only}', lambda: printed(h))
        attempt(f'str.format.{seed}.{best_only}', lambda: printed(h, '{}'.format))
        attempt(f'str.repr.{seed}.{best_only}', lambda: repr(h).startswith('<opytimizer.utils.history.History object'))

h = History()
h.agents = []
attempt('str.noagents.nobest', lambda: printed(h))
h = History()
h.best_agent = []
attempt('str.nobest.noagents', lambda: printed(h))
h = History()
h.agents = [[([1.0], 2.0)], [([3.0], 4.0)], [([5.0], 6.0)]]
h.best_agent = [([7.0], 8.0)]
attempt('str.mismatch.short.best', lambda: printed(h))
h.agents, h.best_agent = h.best_agent, h.agents
attempt('str.mismatch.bad.records', lambda: printed(h))
h = History()
h.agents = iter([[([1.0], 2.0)]])
h.best_agent = [([7.0], 8.0)]
attempt('str.iterator.agents', lambda: printed(h))
h = History()
h.agents = iter([])
h.best_agent = []
attempt('str.iterator.empty', lambda: printed(h))
h = History()
h.agents = [[([1.0], 2.0)], [([3.0], 4.0)]]
h.best_agent = iter([([7.0], 8.0), ([9.0], 10.0)])
attempt('str.iterator.best', lambda: printed(h))
h = History()
h.agents = [[(1.0,)]]
h.best_agent = [([7.0], 8.0)]
attempt('str.short.record', lambda: printed(h))
h = History()
h.agents = [[]]
h.best_agent = [(1,)]
attempt('str.short.best', lambda: printed(h))
h = History()
h.agents = 5
h.best_agent = [(1,)]
attempt('str.int.agents', lambda: printed(h))

# ---------------------------------------------------------------- 6. save / load
tmp = tempfile.mkdtemp(prefix='harmless_history_')
TMP[0] = tmp
try:
    for seed in (12, 13):
        rng = np.random.RandomState(seed)
        h = History(store_best_only=bool(seed % 2))
        for t in range(3):
            ags = make_agents(rng, 3, 2, 1)
            h.dump(agents=ags, best_agent=ags[2], local=[rng.uniform(size=(2, 1))], time=float(t))
        path = os.path.join(tmp, f'h{seed}.pkl')
        rec(f'save.ret.{seed}', h.save(path))
        with open(path, 'rb') as f:
            raw = f.read()
        rec(f'save.bytes.{seed}', hashlib.sha256(raw).hexdigest())
        rec(f'save.bytes.same.{seed}', raw == pickle.dumps(h))
        rec(f'save.state.{seed}', state(h))
        # overwriting an existing file
        h.save(path)
        with open(path, 'rb') as f:
            rec(f'save.again.{seed}', f.read() == raw)

        g = History(store_best_only='before')
        g.extra = [1.0]
        g.time = ['old']
        old_dict = g.__dict__
        rec(f'load.ret.{seed}', g.load(path))
        rec(f'load.state.{seed}', state(g))
        rec(f'load.keys.{seed}', list(g.__dict__.keys()))
        rec(f'load.samedict.{seed}', g.__dict__ is old_dict)
        rec(f'load.notaliased.{seed}', [getattr(g, k) is getattr(h, k) for k in ('best_agent', 'time')])
        attempt(f'load.str.{seed}', lambda: printed(g))
        attempt(f'load.get.{seed}', lambda: g.get('best_agent', (0,)))
        # the file is closed afterwards and can be replaced
        os.replace(path, path + '.moved')
        attempt(f'load.moved.{seed}', lambda: g.load(path))
        attempt(f'load.moved.ok.{seed}', lambda: g.load(path + '.moved'))

    h = History()
    attempt('save.missing.dir', lambda: h.save(os.path.join(tmp, 'nodir', 'x.pkl')))
    attempt('save.isdir', lambda: type(h.save(tmp)).__name__)
    attempt('save.none', lambda: h.save(None))
    attempt('save.empty.name', lambda: h.save(''))
    h.bad = lambda: 0
    bad_path = os.path.join(tmp, 'bad.pkl')
    attempt('save.unpicklable', lambda: h.save(bad_path))
    rec('save.unpicklable.file', (os.path.isfile(bad_path), os.path.getsize(bad_path) if os.path.isfile(bad_path) else -1))

    g = History(store_best_only='keep')
    g.kept = [1]
    attempt('load.missing', lambda: g.load(os.path.join(tmp, 'missing.pkl')))
    attempt('load.isdir', lambda: g.load(tmp))
    attempt('load.none', lambda: g.load(None))
    attempt('load.emptyfile', lambda: g.load(bad_path) if os.path.isfile(bad_path) else 'nofile')
    garbage = os.path.join(tmp, 'garbage.pkl')
    with open(garbage, 'wb') as f:
        f.write(b'not a pickle')
    attempt('load.garbage', lambda: g.load(garbage))
    for obj_name, obj in (('list', [1, 2]), ('dict', {'a': 1}), ('none', None), ('int', 3)):
        other = os.path.join(tmp, f'{obj_name}.pkl')
        with open(other, 'wb') as f:
            pickle.dump(obj, f)
        attempt(f'load.notahistory.{obj_name}', lambda: g.load(other))
    rec('load.failed.state', state(g))
    # int file descriptors / bytes paths are accepted by open()
    bpath = os.path.join(tmp, 'bytes.pkl').encode()
    h = History()
    h.dump(time=1.0)
    attempt('save.bytes.path', lambda: h.save(bpath))
    attempt('load.bytes.path', lambda: (g.load(bpath), state(g)))
finally:
    for name in os.listdir(tmp):
        os.remove(os.path.join(tmp, name))
    os.rmdir(tmp)


# ---------------------------------------------------------------- 7. seeded optimisation runs
def sphere(x):
    return np.sum(x ** 2)


for seed, opt_cls, best_only in ((0, PSO, False), (1, PSO, True), (2, AIWPSO, False), (3, AIWPSO, True)):
    np.random.seed(seed)
    space = SearchSpace(n_agents=4, n_iterations=5, n_variables=2, lower_bound=[-5, -5], upper_bound=[5, 5])
    o = Opytimizer(space=space, optimizer=opt_cls(), function=Function(pointer=sphere))
    hist = o.start(store_best_only=best_only)
    st = state(hist)
    st.pop('time')
    rec(f'run.{seed}.state', st)
    rec(f'run.{seed}.time', (len(hist.time), type(hist.time[0]).__name__))
    rec(f'run.{seed}.next', float(np.random.uniform()))
    attempt(f'run.{seed}.get.best.pos', lambda: hist.get('best_agent', (0,)))
    attempt(f'run.{seed}.get.best.fit', lambda: hist.get('best_agent', (1,)))
    attempt(f'run.{seed}.get.agent.pos', lambda: hist.get('agents', (1, 0)))
    attempt(f'run.{seed}.get.agent.fit', lambda: hist.get('agents', (1, 1)))
    attempt(f'run.{seed}.get.local', lambda: hist.get('local', (2,)))
    attempt(f'run.{seed}.str', lambda: printed(hist))

digest = hashlib.sha256('\n'.join(LINES).encode()).hexdigest()
if os.environ.get('SAME_VERBOSE'):
    print('\n'.join(LINES))
print(f'{len(LINES)} records')
print(digest)
