"""Digest of opytimizer.math.hypercomplex.span / norm on seeded inputs and edge cases.

Run from the worktree root:
    PYTHONPATH=/tmp/harmless/C13 /venv/bin/python harmlessA/same.py
The digest must be the same with and without harmlessA/patch.diff applied.
"""

import hashlib
import warnings

import numpy as np

import opytimizer.math.hypercomplex as h

warnings.simplefilter('ignore')

H = hashlib.sha256()


def feed(tag, value):
    """Adds a result (array, scalar or exception) to the digest."""

    H.update(tag.encode())
    if isinstance(value, BaseException):
        H.update(('EXC:' + type(value).__name__ + ':' + str(value)).encode())
        return
    arr = np.asarray(value)
    H.update(str(arr.dtype).encode())
    H.update(str(arr.shape).encode())
    for v in arr.ravel().tolist():
        if isinstance(v, complex):
            H.update((float(v.real).hex() + float(v.imag).hex()).encode())
        else:
            H.update(float(v).hex().encode())


def call(tag, fn, *args):
    try:
        with np.errstate(all='ignore'):
            out = fn(*args)
    except BaseException as exc:  # pylint: disable=broad-except
        out = exc
    feed(tag, out)
    return out


rng = np.random.RandomState(1313)

# Seeded inputs over many shapes and kinds of bounds
for n_var in (1, 2, 3, 7, 16):
    for n_dim in (1, 2, 4, 8, 33):
        for k in range(6):
            x = rng.uniform(0, 1, (n_var, n_dim))
            if k == 0:
                lb = rng.uniform(-10, 0, n_var)
                ub = lb + rng.uniform(0, 10, n_var)
            elif k == 1:
                lb = rng.uniform(-1e300, 0, n_var)
                ub = rng.uniform(0, 1e300, n_var)
            elif k == 2:
                lb = rng.uniform(-5, 5, n_var)
                ub = lb.copy()
            elif k == 3:
                lb = rng.randint(-100, 0, n_var)
                ub = rng.randint(0, 100, n_var)
            elif k == 4:
                lb = rng.uniform(-1e-300, 0, n_var)
                ub = rng.uniform(0, 1e-300, n_var)
            else:
                lb = rng.uniform(1e6, 2e6, n_var)
                ub = lb + rng.uniform(0, 1e-6, n_var)
            tag = f's{n_var}.{n_dim}.{k}'
            call(tag + 'n', h.norm, x)
            call(tag + 'a', h.span, x, lb, ub)
            call(tag + 'l', h.span, x, lb.tolist(), ub.tolist())
            call(tag + 't', h.span, x, tuple(lb.tolist()), tuple(ub.tolist()))
            # Corners and special positions
            call(tag + 'z', h.span, np.zeros((n_var, n_dim)), lb, ub)
            call(tag + 'o', h.span, np.ones((n_var, n_dim)), lb, ub)
            call(tag + 'd', h.span, np.full((n_var, n_dim), 5e-324), lb, ub)
            call(tag + 'm', h.span, np.full((n_var, n_dim), -0.0), lb, ub)
            corner = (rng.uniform(0, 1, (n_var, n_dim)) < 0.5).astype(float)
            call(tag + 'c', h.span, corner, lb, ub)

# Other dtypes and containers
x = rng.uniform(0, 1, (3, 4))
call('f32', h.span, x.astype(np.float32), np.float32([-1, -2, -3]), np.float32([1, 2, 3]))
call('int', h.span, np.ones((3, 4), dtype=int), [0, 0, 0], [1, 2, 3])
call('bool', h.span, np.ones((3, 4), dtype=bool), [0, 0, 0], [1, 2, 3])
call('scalar', h.span, x, -2, 5)
call('npscalar', h.span, x, np.float64(-2), np.float64(5))
call('bcast1', h.span, x, [-1], [1])
call('bcast2', h.span, x, [[-1, -2, -3]], [[1, 2, 3]])
call('cplx', h.span, x + 1j * x, [0, 0, 0], [1, 1, 1])
call('nan', h.span, np.array([[np.nan, 0.5], [0.5, 0.5]]), [0, 0], [1, 1])
call('inf', h.span, np.array([[np.inf, 0.5], [0.5, 0.5]]), [0, 0], [1, 1])
call('infb', h.span, np.array([[0.0, 0.0], [0.5, 0.5]]), [-np.inf, 0], [np.inf, 1])
call('nanb', h.span, np.array([[0.0, 0.0], [0.5, 0.5]]), [np.nan, 0], [1, np.nan])
call('big', h.span, np.ones((2, 2)), [-1.7e308, 0], [1.7e308, 1])
call('3d', h.span, rng.uniform(0, 1, (2, 3, 4)), [0, 0], [1, 1])
call('3db', h.span, rng.uniform(0, 1, (2, 3, 4)), 0, 1)
call('emptydim', h.span, np.zeros((2, 0)), [0, 0], [1, 1])
call('emptyvar', h.span, np.zeros((0, 3)), [], [])

# Failing inputs: the same exception must come out
call('e1d', h.span, np.ones(4), [0], [1])
call('e1d-mismatch', h.span, np.ones(4), [0, 0], [1, 1, 1])
call('e0d', h.span, np.float64(0.5), [0], [1])
call('elist', h.span, [[0.5, 0.5]], [0], [1])
call('emismatch-b', h.span, x, [0, 0], [1, 1, 1])
call('emismatch-x', h.span, x, [0, 0], [1, 1])
call('emismatch-lb', h.span, x, [0, 0], [1, 1, 1][:3])
call('estr', h.span, x, ['a', 'b', 'c'], [1, 1, 1])
call('enone', h.span, x, None, [1, 1, 1])
call('eragged', h.span, x, [[0], [0, 0]], [1, 1, 1])
call('norm1d', h.norm, np.ones(4))
call('normlist', h.norm, [[3.0, 4.0], [0.0, 0.0]])

# Inputs are not modified and the result is a fresh array
lb = np.array([-1.0, -2.0, -3.0])
ub = np.array([1.0, 2.0, 3.0])
x0 = x.copy()
out = h.span(x, lb, ub)
out += 1000.0
feed('after-lb', lb)
feed('after-ub', ub)
feed('after-x', x)
feed('same-x', np.array([float(np.array_equal(x, x0))]))
out0 = h.span(np.zeros((3, 4)), lb, ub)
feed('alias', np.array([float(np.shares_memory(out0, lb)), float(np.shares_memory(out0, ub))]))
out0[:] = 7.0
feed('after-lb2', lb)

# The module does not touch the global random stream
np.random.seed(5)
h.span(x, lb, ub)
feed('rng', np.random.uniform(size=3))

print(H.hexdigest())
