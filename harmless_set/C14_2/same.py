"""Digest of Agent setter / constructor outcomes (with the logged error lines),
of agent state after copies, and of seeded runs that build and copy agents."""
import copy
import hashlib
import logging
import pickle

import numpy as np

from opytimizer.core.agent import Agent
from opytimizer.core.function import Function
from opytimizer.optimizers.hs import HS
from opytimizer.optimizers.pso import PSO
from opytimizer.spaces.search import SearchSpace

out = []


class Capture(logging.Handler):
    def emit(self, record):
        out.append(f'log {record.name} {record.levelname} {record.getMessage()}')


# silence the library's console/file handlers, keep every record in the digest
# (the library's loggers do not propagate, so the capture handler goes on each of them)
CAPTURE = Capture()
for lname, lg in list(logging.Logger.manager.loggerDict.items()):
    if lname.startswith('opytimizer') and isinstance(lg, logging.Logger):
        for hd in list(lg.handlers):
            lg.removeHandler(hd)
            hd.close()
        lg.addHandler(CAPTURE)


def show(v):
    if isinstance(v, float):
        return 'float:' + v.hex()
    if isinstance(v, np.ndarray):
        return 'nd:' + str(v.dtype) + ':' + str(v.shape) + ':' + ','.join(float(x).hex() for x in v.ravel())
    if callable(v) or type(v) is object:
        return type(v).__name__ + ':' + getattr(v, '__name__', '?')
    return type(v).__name__ + ':' + repr(v)


def err(ex):
    return f'{type(ex).__module__}.{type(ex).__name__} {ex.args!r}'


class MyInt(int):
    pass


PROBES = [
    1, 0, -1, 2, 3, 10 ** 30, -10 ** 30, True, False, MyInt(2), MyInt(0), MyInt(-2),
    1.0, 0.0, -1.0, 0.5, 2.0, float('inf'), float('nan'),
    np.int64(1), np.int64(0), np.int32(-1), np.uint8(3), np.bool_(True), np.float64(1.0),
    None, '1', 'n', b'1', [], [1], (1,), {}, 1 + 0j,
    np.array(1), np.array([1]), np.array([1, 2]), int, len, object(),
]

for name in ('n_variables', 'n_dimensions'):
    for k, v in enumerate(PROBES):
        a = Agent(n_variables=4, n_dimensions=3)
        before = sorted(vars(a))
        try:
            setattr(a, name, v)
            got = getattr(a, name)
            out.append(f'set {name} {k} ok {show(got)} same={got is v}')
        except BaseException as ex:
            out.append(f'set {name} {k} {err(ex)} prev={show(getattr(a, name))}')
        out.append(f'set {name} {k} vars {before == sorted(vars(a))} {sorted(vars(a))}')
        out.append(f'set {name} {k} rest {show(a.position)} {show(a.lb)} {show(a.ub)} {show(a.fit)}')

# constructor: n_variables is validated first, then n_dimensions; on rejection nothing is built
for kv, v in enumerate(PROBES):
    for kd, d in enumerate(PROBES[:20]):
        try:
            a = Agent(n_variables=v, n_dimensions=d)
            out.append(f'ctor {kv} {kd} ok {show(a.n_variables)} {show(a.n_dimensions)} '
                       f'{a.n_variables is v} {a.n_dimensions is d} {show(a.position)} {show(a.lb)} {show(a.ub)}')
        except BaseException as ex:
            out.append(f'ctor {kv} {kd} {err(ex)}')
for args in ((), (2,), (2, 3), (0,), (1, 0), ('a', 'b')):
    try:
        a = Agent(*args)
        out.append(f'pos {args!r} ok {a.n_variables} {a.n_dimensions} {sorted(vars(a))}')
    except BaseException as ex:
        out.append(f'pos {args!r} {err(ex)}')

# copies and pickles carry exactly the same instance state
a = Agent(n_variables=3, n_dimensions=2)
a.position = np.arange(6.0).reshape(3, 2) / 7
a.fit = 0.1
for b in (copy.copy(a), copy.deepcopy(a), pickle.loads(pickle.dumps(a))):
    out.append(f'copy {sorted(vars(b))} {b.n_variables} {b.n_dimensions} {show(b.position)} {show(b.fit)}')
    try:
        b.n_variables = 0
    except BaseException as ex:
        out.append(f'copy {err(ex)} prev={b.n_variables}')
    b.n_dimensions = 5
    out.append(f'copy after {b.n_dimensions} original {a.n_dimensions}')

# check_limits is untouched
np.random.seed(11)
for nv, nd in ((1, 1), (3, 1), (2, 4)):
    a = Agent(n_variables=nv, n_dimensions=nd)
    a.lb = np.random.uniform(-1, 0, nv)
    a.ub = np.random.uniform(0, 1, nv)
    a.position = np.random.uniform(-2, 2, (nv, nd))
    a.check_limits()
    out.append(f'clip {show(a.position)}')


def sphere(x):
    return float(np.sum(x ** 2))


for seed, opt, na, nv, it in [(0, HS, 5, 2, 15), (1, HS, 3, 1, 10), (2, PSO, 4, 3, 6), (3, HS, 6, 4, 20)]:
    np.random.seed(seed)
    try:
        space = SearchSpace(n_agents=na, n_iterations=it, n_variables=nv,
                            lower_bound=[-5.0] * nv, upper_bound=[5.0] * nv)
        opt().run(space, Function(pointer=sphere))
        out.append(f'run {seed} best {show(space.best_agent.position)} {show(float(space.best_agent.fit))}')
        for a in space.agents:
            out.append(f'run {seed} agent {show(a.position)} {show(float(a.fit))}')
    except BaseException as ex:
        out.append(f'run {seed} {err(ex)}')
    out.append(f'run {seed} next {np.random.uniform().hex()}')

for bad in (dict(n_variables=0), dict(n_variables=1.0), dict(n_variables=-3), dict(n_agents=2, n_variables=True)):
    try:
        kw = dict(n_agents=2, n_iterations=2, n_variables=2, lower_bound=[0, 0], upper_bound=[1, 1])
        kw.update(bad)
        np.random.seed(5)
        s = SearchSpace(**kw)
        out.append(f'space {bad!r} ok {s.n_variables} {len(s.agents)} {show(s.agents[0].position)}')
    except BaseException as ex:
        out.append(f'space {bad!r} {err(ex)}')

import sys
if "-v" in sys.argv:
    print("\n".join(out))
print(len(out), hashlib.sha256('\n'.join(out).encode()).hexdigest())
