"""Exercises the IHS setters (PAR_min, PAR_max, bw_min, bw_max) and prints a digest."""
import hashlib
import logging

import numpy as np

from opytimizer.core import function
from opytimizer.optimizers import ihs
from opytimizer.spaces import search

OUT = []


class Capture(logging.Handler):
    """Records what the library's error classes write to the log."""

    def emit(self, record):
        OUT.append(f'log|{record.name}|{record.levelname}|{record.getMessage()}')


# Silence the console/file handlers; keep (and digest) the error log lines
for _name, _lg in list(logging.root.manager.loggerDict.items()):
    if _name.startswith('opytimizer') and isinstance(_lg, logging.Logger):
        _lg.handlers = [Capture() if _name == 'opytimizer.utils.exception' else logging.NullHandler()]


def rec(*items):
    OUT.append('|'.join(str(i) for i in items))


def enc(v):
    """Encodes a value exactly (type + bit pattern for floats)."""
    if isinstance(v, float):
        return f'{type(v).__name__}:{float(v).hex()}'
    if isinstance(v, np.ndarray):
        return f'ndarray:{v.dtype}:{v.shape}:{v.tobytes().hex()}'
    if isinstance(v, (list, tuple)):
        return f'{type(v).__name__}[' + ','.join(enc(x) for x in v) + ']'
    return f'{type(v).__name__}:{v!r}'


class MyFloat(float):
    pass


class MyInt(int):
    pass


class Weird:
    """Not a number, but comparable."""

    def __lt__(self, other):
        return False

    def __repr__(self):
        return 'Weird()'


PROBES = [
    0, 1, -1, 2, 10 ** 30, -10 ** 30, True, False,
    0.0, -0.0, 0.5, 1.0, -0.5, 1e-320, -1e-320, 1e308, -1e308,
    float('nan'), float('inf'), float('-inf'),
    np.float64(0.3), np.float64(-0.3), np.float64('nan'), np.float32(0.3),
    np.float16(0.3), np.int64(3), np.int32(-3), np.bool_(True),
    MyFloat(0.25), MyFloat(-0.25), MyInt(4), MyInt(-4),
    'a', '', b'1', None, [1.0], (1.0,), {}, {1}, 1j, complex(1, 0),
    np.array(0.5), np.array([0.5]), np.array([0.5, -1.0]), Weird(), object, int, float,
]


NAMES = ['PAR_min', 'PAR_max', 'bw_min', 'bw_max']


def state(opt):
    return [enc(opt.__dict__.get('_' + n, 'unset')) for n in NAMES]


def probe_setters():
    # Each setter from several starting configurations (the max setters compare with the min)
    starts = [
        {},
        {'PAR_min': 0.5, 'PAR_max': 0.75, 'bw_min': 2, 'bw_max': 5},
        {'PAR_min': 1, 'PAR_max': 1, 'bw_min': 10.0, 'bw_max': 10.0},
        {'PAR_min': float('nan'), 'bw_min': float('nan')},
    ]
    for s, hp in enumerate(starts):
        for name in NAMES:
            opt = ihs.IHS(hyperparams=hp)
            for k, v in enumerate(PROBES):
                before = getattr(opt, name)
                try:
                    setattr(opt, name, v)
                    after = getattr(opt, name)
                    rec(s, name, k, 'ok', enc(after), after is v, opt.__dict__['_' + name] is v)
                except BaseException as ex:  # pylint: disable=broad-except
                    after = getattr(opt, name)
                    rec(s, name, k, 'exc', type(ex).__module__, type(ex).__name__,
                        [enc(a) if not isinstance(a, str) else a for a in ex.args],
                        str(ex), after is before)
            rec(s, name, 'state', state(opt))

    # Order dependence: the min setters do not look at the max
    opt = ihs.IHS()
    for name, v in [('PAR_max', 0.5), ('PAR_min', 0.9), ('PAR_max', 0.6), ('PAR_max', 0.9),
                    ('bw_max', 3), ('bw_min', 7), ('bw_max', 6.999), ('bw_max', 7), ('bw_min', 0),
                    ('bw_max', 0), ('PAR_min', 0), ('PAR_max', 0), ('PAR_max', -0.0)]:
        try:
            setattr(opt, name, v)
            rec('seq', name, enc(v), 'ok', state(opt))
        except BaseException as ex:  # pylint: disable=broad-except
            rec('seq', name, enc(v), 'exc', type(ex).__module__, type(ex).__name__, str(ex), state(opt))

    # A setter used before its partner exists
    raw = ihs.IHS.__new__(ihs.IHS)
    for name, v in [('PAR_max', 0.5), ('bw_max', 2), ('PAR_max', 'x'), ('bw_max', -1),
                    ('PAR_min', 0.1), ('PAR_max', 0.5), ('bw_min', 1), ('bw_max', 2)]:
        try:
            setattr(raw, name, v)
            rec('raw', name, 'ok', state(raw))
        except BaseException as ex:  # pylint: disable=broad-except
            rec('raw', name, 'exc', type(ex).__module__, type(ex).__name__, str(ex), state(raw))

    # Setters called through the property object, positionally
    opt = ihs.IHS()
    for name, v in [('PAR_min', 0.25), ('PAR_max', 0.5), ('bw_min', 2), ('bw_max', 1)]:
        try:
            rec('fset', name, getattr(ihs.IHS, name).fset(opt, v), state(opt))
        except BaseException as ex:  # pylint: disable=broad-except
            rec('fset', name, 'exc', type(ex).__name__, str(ex), state(opt))


def probe_constructor():
    cases = [
        {}, {'PAR_min': 0.5, 'PAR_max': 1, 'bw_min': 2, 'bw_max': 5},
        {'PAR_min': 0.5, 'PAR_max': 0.25}, {'bw_min': 20}, {'bw_min': 20, 'bw_max': 30},
        {'PAR_min': 2}, {'PAR_max': -1}, {'bw_min': 'x'}, {'bw_max': None}, {'PAR_min': True, 'PAR_max': True},
        {'HMCR': 0.5, 'PAR': 0.2, 'bw': 3, 'PAR_min': 0.1}, {'PAR_max': float('nan')},
        {'bw_max': float('inf'), 'bw_min': float('inf')}, {'PAR_min': 1.0000000000000002},
    ]
    for k, hp in enumerate(cases):
        try:
            opt = ihs.IHS(hyperparams=hp)
            rec('ctor', k, 'ok', state(opt), opt.built, opt.hyperparams is hp, sorted(opt.__dict__))
        except BaseException as ex:  # pylint: disable=broad-except
            rec('ctor', k, 'exc', type(ex).__module__, type(ex).__name__, ex.args, str(ex))


def sphere(x):
    return np.sum(x ** 2)


def rastrigin(x):
    return np.sum(x ** 2 - 10 * np.cos(2 * np.pi * x) + 10)


def seeded_runs():
    configs = [
        (0, sphere, {}, 5, 2, 8),
        (1, sphere, {'PAR_min': 0.2, 'PAR_max': 0.9, 'bw_min': 0.5, 'bw_max': 4}, 4, 3, 6),
        (2, rastrigin, {'PAR_min': 1, 'PAR_max': 1, 'bw_min': 2, 'bw_max': 2, 'HMCR': 0.9}, 6, 2, 10),
        (3, rastrigin, {'PAR_min': True, 'PAR_max': MyFloat(1.0), 'bw_min': MyInt(1), 'bw_max': np.float64(3)}, 3, 1, 6),
        (4, sphere, {'PAR_min': 0, 'PAR_max': 0}, 3, 2, 4),
    ]
    for seed, fn, hp, n_agents, n_vars, n_iter in configs:
        np.random.seed(seed)
        space = search.SearchSpace(n_agents=n_agents, n_variables=n_vars, n_iterations=n_iter,
                                   lower_bound=[-5] * n_vars, upper_bound=[5] * n_vars)
        opt = ihs.IHS(hyperparams=hp)
        with np.errstate(all='ignore'):
            hist = opt.run(space, function.Function(pointer=fn))
        for it, (agents, best) in enumerate(zip(hist.agents, hist.best_agent)):
            rec('run', seed, it,
                [[[float(x).hex() for x in row] for row in a[0]] for a in agents],
                [float(a[1]).hex() for a in agents],
                [[float(x).hex() for x in row] for row in best[0]], float(best[1]).hex())
        rec('run-final', seed, enc(space.best_agent.position), enc(float(space.best_agent.fit)),
            enc(opt.PAR), enc(opt.bw), state(opt), np.random.random_sample().hex())


probe_setters()
probe_constructor()
seeded_runs()

digest = hashlib.sha256('\n'.join(OUT).encode()).hexdigest()
print(len(OUT), 'records')
print(digest)
