"""Exercises History._parse / dump / get / save / load on seeded inputs and prints a digest."""
import hashlib
import os
import pickle
import re
import tempfile

import numpy as np

from opytimizer import Opytimizer
from opytimizer.core.agent import Agent
from opytimizer.core.function import Function
from opytimizer.optimizers.pso import PSO
from opytimizer.spaces.search import SearchSpace
from opytimizer.utils.history import History

H = hashlib.sha256()
TMP = ['\0unset']


def feed(x):
    """Feeds a canonical, type-aware encoding of `x` into the digest."""
    if isinstance(x, (float, np.floating)):
        H.update(b'f' + float(x).hex().encode())
    elif isinstance(x, (bool, np.bool_)):
        H.update(b'b' + str(bool(x)).encode())
    elif isinstance(x, (int, np.integer)):
        H.update(b'i' + str(int(x)).encode())
    elif isinstance(x, str):
        H.update(b's' + x.encode())
    elif isinstance(x, bytes):
        H.update(b'y' + x)
    elif x is None:
        H.update(b'N')
    elif isinstance(x, np.ndarray):
        H.update(b'a' + str(x.dtype).encode() + str(x.shape).encode() + b'[')
        for v in x.ravel().tolist():
            feed(v)
        H.update(b']')
    elif isinstance(x, (list, tuple)):
        H.update(type(x).__name__.encode() + b'(')
        for v in x:
            feed(v)
        H.update(b')')
    elif isinstance(x, dict):
        H.update(b'd{')
        for k in x:
            feed(k)
            feed(x[k])
        H.update(b'}')
    else:
        H.update(b'o' + type(x).__name__.encode())


import sys
DBG = os.environ.get('SAME_DEBUG')


def attempt(label, fn):
    """Runs `fn`, feeding its result or the raised exception's type and message."""
    feed(label)
    try:
        out = fn()
    except BaseException as ex:  # noqa
        msg = re.sub(r'0x[0-9a-fA-F]+', '0x?', str(ex).replace(TMP[0], '<tmp>'))
        feed('EXC:' + type(ex).__name__ + ':' + msg)
        if DBG:
            sys.stderr.write('%s %s %s\n' % (label, type(ex).__name__, msg))
        return None
    feed(out)
    if DBG:
        sys.stderr.write('%s %s %s\n' % (label, H.hexdigest()[:8], repr(out)[:60].replace('\n', ' ')))
    return out


def make_agent(rng, n_var, n_dim, fit=None):
    a = Agent(n_variables=n_var, n_dimensions=n_dim)
    a.position = rng.uniform(-5, 5, size=(n_var, n_dim))
    a.fit = float(rng.uniform(0, 10)) if fit is None else fit
    return a


tmp = tempfile.mkdtemp(prefix='hist_same_')
TMP[0] = tmp

# --- 1. _parse on every key, unknown keys and bad values ---------------------
for seed in (0, 1, 7, 123):
    rng = np.random.RandomState(seed)
    h = History()
    agents = [make_agent(rng, 3, 1 + seed % 2) for _ in range(4)]
    attempt('p-agents', lambda: h._parse('agents', agents))
    attempt('p-best', lambda: h._parse('best_agent', agents[0]))
    attempt('p-local', lambda: h._parse('local', [rng.uniform(size=(3, 1)) for _ in range(4)]))
    attempt('p-unknown', lambda: h._parse('nothing', agents))
    attempt('p-empty-key', lambda: h._parse('', 1))
    attempt('p-none-key', lambda: h._parse(None, agents))
    attempt('p-agents-empty', lambda: h._parse('agents', []))
    attempt('p-local-empty', lambda: h._parse('local', []))
    attempt('p-agents-bad', lambda: h._parse('agents', [1, 2]))
    attempt('p-agents-noniter', lambda: h._parse('agents', 5))
    attempt('p-best-bad', lambda: h._parse('best_agent', 'x'))
    attempt('p-local-bad', lambda: h._parse('local', [1.0]))

    # Array-valued fitness: the record holds a copy, not the array itself
    arr_fit = np.array([1.5, float(seed)])
    b = make_agent(rng, 2, 1, fit=arr_fit)
    rec = h._parse('best_agent', b)
    feed(rec)
    feed(rec[1] is arr_fit)
    recs = h._parse('agents', [b])
    feed(recs[0][1] is arr_fit)
    arr_fit[0] = -1.0
    feed(rec)
    feed(recs)

# --- 2. dump: history keys, free keys, store_best_only, appending ------------
for seed in (2, 3, 11):
    for best_only in (False, True):
        rng = np.random.RandomState(seed)
        h = History(store_best_only=best_only)
        attempt('d-nothing', lambda: h.dump())
        feed(sorted(h.__dict__))
        payload = {'tag': 'x'}
        for t in range(3):
            agents = [make_agent(rng, 2, 1) for _ in range(3)]
            local = [rng.uniform(size=(2, 1)) for _ in range(3)]
            attempt('d-full', lambda: h.dump(agents=agents, best_agent=agents[t], local=local,
                                              extra=t * 0.5, payload=payload, k='kk', v='vv',
                                              out='oo', key='KK', value='VV', self_='s'))
        feed(list(h.__dict__))
        for name in h.__dict__:
            feed(name)
            feed(getattr(h, name))
        # Free keys are stored by reference, history keys are parsed copies
        feed(all(p is payload for p in h.payload))
        attempt('d-bad-agents', lambda: h.dump(agents=3))
        attempt('d-bad-best', lambda: h.dump(best_agent=None))
        attempt('d-bad-local', lambda: h.dump(local=[2]))
        feed(list(h.__dict__))
        feed(len(h.best_agent))
        # An existing non-list attribute
        h.scalar = 4
        attempt('d-nonlist', lambda: h.dump(scalar=5))
        attempt('d-flag', lambda: h.dump(store_best_only=1))
        feed(h.store_best_only)
        # Order of processing: the failing key comes after a good one
        attempt('d-order', lambda: h.dump(first=1, best_agent='bad', last=2))
        feed(hasattr(h, 'first'))
        feed(hasattr(h, 'last'))

# --- 3. get ------------------------------------------------------------------
for seed in (4, 5):
    rng = np.random.RandomState(seed)
    h = History()
    for t in range(4):
        agents = [make_agent(rng, 3, 1) for _ in range(5)]
        h.dump(agents=agents, best_agent=agents[0], local=[a.position.copy() for a in agents],
               scalar=float(rng.uniform()), vec=rng.uniform(size=3).tolist())
    for key, index in [('agents', (0, 0)), ('agents', (4, 1)), ('agents', (0,)), ('agents', ()),
                       ('agents', (0, 0, 0)), ('agents', (9, 0)), ('agents', (-1, 1)),
                       ('best_agent', (0,)), ('best_agent', (1,)), ('best_agent', (0, 1)),
                       ('best_agent', ()), ('best_agent', (2,)),
                       ('local', (0, 0, 0)), ('local', (2, 1, 0)), ('local', (0,)),
                       ('local', (0, 0)), ('local', (0, 3, 0)), ('local', (slice(0, 2), 0, 0)),
                       ('scalar', ()), ('scalar', (0,)), ('vec', (0,)), ('vec', (2,)), ('vec', ()),
                       ('vec', (5,)), ('missing', (0,)), ('missing', 0), ('agents', [0, 0]),
                       ('agents', 0), ('agents', None), ('store_best_only', ()),
                       ('vec', ('a',)), ('vec', (1.5,))]:
        r = attempt('g-%s-%r' % (key, index), lambda: h.get(key, index))
        if isinstance(r, np.ndarray):
            feed(str(r.dtype))
    # Array-valued fitness makes ragged / object records
    h2 = History()
    for t in range(3):
        h2.dump(best_agent=make_agent(rng, 2, 1, fit=np.array([float(t), 1.0])))
    attempt('g-arrfit-0', lambda: h2.get('best_agent', (0,)))
    attempt('g-arrfit-1', lambda: h2.get('best_agent', (1,)))
    # Ragged records
    h3 = History()
    h3.dump(r=[1.0, 2.0])
    h3.dump(r=[3.0])
    attempt('g-ragged', lambda: h3.get('r', ()))
    attempt('g-ragged-0', lambda: h3.get('r', (0,)))
    # Empty history attribute
    h4 = History()
    h4.z = []
    attempt('g-empty', lambda: h4.get('z', ()))
    # get does not modify the stored records
    before = pickle.dumps(h.__dict__)
    h.get('agents', (0, 0))
    feed(before == pickle.dumps(h.__dict__))

# --- 4. save / load ----------------------------------------------------------
for seed in (6, 8):
    rng = np.random.RandomState(seed)
    h = History(store_best_only=bool(seed % 4))
    for t in range(3):
        agents = [make_agent(rng, 2, 2) for _ in range(3)]
        h.dump(agents=agents, best_agent=agents[1], note='n%d' % t)
    path = os.path.join(tmp, 'h%d.pkl' % seed)
    attempt('s-save', lambda: h.save(path))
    with open(path, 'rb') as fh:
        raw = fh.read()
    feed(raw)
    feed(raw == pickle.dumps(h))
    # Saving twice overwrites with the same content
    h.save(path)
    with open(path, 'rb') as fh:
        feed(fh.read() == raw)
    g = History()
    g.keep = 'kept'
    g.note = ['old']
    keep_dict = g.__dict__
    attempt('l-load', lambda: g.load(path))
    feed(g.__dict__ is keep_dict)
    feed(list(g.__dict__))
    for name in g.__dict__:
        feed(name)
        feed(getattr(g, name))
    attempt('l-get', lambda: g.get('best_agent', (0,)))
    # Failures
    attempt('s-dir', lambda: h.save(tmp))
    attempt('s-nodir', lambda: h.save(os.path.join(tmp, 'nope', 'x.pkl')).__class__)
    attempt('s-none', lambda: h.save(None))
    attempt('l-missing', lambda: g.load(os.path.join(tmp, 'missing.pkl')).__class__)
    attempt('l-dir', lambda: g.load(tmp))
    empty = os.path.join(tmp, 'empty.pkl')
    open(empty, 'wb').close()
    attempt('l-empty', lambda: g.load(empty))
    junk = os.path.join(tmp, 'junk.pkl')
    with open(junk, 'wb') as fh:
        fh.write(b'not a pickle')
    attempt('l-junk', lambda: g.load(junk))
    nodict = os.path.join(tmp, 'nodict.pkl')
    with open(nodict, 'wb') as fh:
        pickle.dump([1, 2, 3], fh)
    attempt('l-nodict', lambda: g.load(nodict))
    feed(list(g.__dict__))
    # Unpicklable content
    h.fn = [lambda: 0]
    attempt('s-unpicklable', lambda: h.save(os.path.join(tmp, 'bad.pkl')))
    feed(os.path.getsize(os.path.join(tmp, 'bad.pkl')))
    # load returns None, save returns None
    feed(History().load(path) is None)
    feed(History().save(os.path.join(tmp, 'e.pkl')) is None)

# --- 5. whole seeded optimisation runs ---------------------------------------
def sphere(x):
    return np.sum(x ** 2)


for seed in (0, 42):
    for best_only in (False, True):
        np.random.seed(seed)
        space = SearchSpace(n_agents=5, n_variables=3, n_iterations=6,
                            lower_bound=[-5, -5, -5], upper_bound=[5, 5, 5])
        opt = Opytimizer(space=space, optimizer=PSO(), function=Function(pointer=sphere))
        hist = opt.start(store_best_only=best_only)
        feed(sorted(k for k in hist.__dict__))
        for name in sorted(hist.__dict__):
            feed(name)
            # The elapsed wall-clock time is the only non-reproducible record
            if name == 'time':
                feed(len(hist.time))
                continue
            feed(getattr(hist, name))
        attempt('r-get-best-pos', lambda: hist.get('best_agent', (0,)))
        attempt('r-get-best-fit', lambda: hist.get('best_agent', (1,)))
        attempt('r-get-agents', lambda: hist.get('agents', (0, 0)))
        attempt('r-get-local', lambda: hist.get('local', (1, 2, 0)))
        path = os.path.join(tmp, 'run%d_%d.pkl' % (seed, best_only))
        hist.save(path)
        back = History()
        back.load(path)
        feed(pickle.dumps(back) == pickle.dumps(hist))
        feed(list(back.__dict__) == list(hist.__dict__))
        # The random stream was consumed identically
        feed(float(np.random.uniform()))

for root, dirs, files in os.walk(tmp, topdown=False):
    for f in files:
        os.remove(os.path.join(root, f))
    for d in dirs:
        os.rmdir(os.path.join(root, d))
os.rmdir(tmp)

print(H.hexdigest())
