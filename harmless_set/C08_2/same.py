"""Digest of GP._cross / GP._crossover / short GP runs on seeded and scripted inputs.

Run as: cd /tmp/harmless/C08 && PYTHONPATH=/tmp/harmless/C08 /venv/bin/python harmlessB/same.py
The last line printed is the digest; it must be the same with and without harmlessB/patch.diff.
"""

import copy
import hashlib
import logging

logging.disable(logging.CRITICAL)

import numpy as np

import opytimizer.math.random as r
from opytimizer.core.function import Function
from opytimizer.core.node import Node
from opytimizer.optimizers.gp import GP
from opytimizer.spaces.tree import TreeSpace

np.seterr(all='ignore')

ALL = ['SUM', 'SUB', 'MUL', 'DIV', 'EXP', 'SQRT', 'LOG', 'ABS', 'SIN', 'COS']

H = hashlib.sha256()


def put(*items):
    for it in items:
        H.update(repr(it).encode())
        H.update(b'|')


def put_array(a):
    if a is None:
        put('None')
        return
    a = np.asarray(a)
    put(a.shape, str(a.dtype))
    for x in a.ravel().tolist():
        put(float(x).hex() if isinstance(x, float) else x)


def put_rng():
    st = np.random.get_state()
    put(st[0], hashlib.sha256(st[1].tobytes()).hexdigest(), st[2], st[3], float(st[4]).hex())


def walk(tree):
    """All nodes reachable through left/right, without relying on the library traversal."""
    out, stack, seen = [], [tree], set()
    while stack:
        n = stack.pop()
        if n is None or id(n) in seen:
            continue
        seen.add(id(n))
        out.append(n)
        stack.append(n.right)
        stack.append(n.left)
    return out


def put_tree(tree, alias, evaluate=True):
    """Serializes structure, links, flags, values and value-array aliasing of a tree."""
    nodes = walk(tree)
    index = {id(n): i for i, n in enumerate(nodes)}
    put('tree', len(nodes), tree.parent is None)
    for n in nodes:
        put(n.type, n.name, n.flag,
            index.get(id(n.left), None if n.left is None else 'ext'),
            index.get(id(n.right), None if n.right is None else 'ext'),
            index.get(id(n.parent), None if n.parent is None else 'ext'))
        if n.value is not None:
            put(alias.setdefault(id(n.value), len(alias)))
        put_array(n.value)
    if evaluate:
        put(tree.n_nodes, tree.n_leaves, tree.min_depth, tree.max_depth)
        try:
            put_array(tree.position)
        except BaseException as ex:  # noqa
            put('position raised', type(ex).__name__, str(ex))


def put_space(space, alias):
    put('space', len(space.trees))
    for t in space.trees:
        put_tree(t, alias)
    put_tree(space.best_tree, alias)
    for a in space.agents:
        put_array(a.position)
        put(float(a.fit).hex())
    put_array(space.best_agent.position)
    put(float(space.best_agent.fit).hex())


def disjoint(*trees):
    ids = [set(id(n) for n in walk(t)) for t in trees]
    for i in range(len(ids)):
        for j in range(i + 1, len(ids)):
            if ids[i] & ids[j]:
                return False
    return True


real_uniform = r.generate_uniform_random_number


def scripted(values):
    it = iter(values)

    def fake(low=0.0, high=1.0, size=1):
        real = real_uniform(low, high, size)
        try:
            return np.array([next(it)])
        except StopIteration:
            return real
    return fake


def T(k, v=None):
    return Node(name=k, type='TERMINAL', value=np.array([[float(k) + 0.25 if v is None else v]]))


def F(name, left, right=None):
    n = Node(name=name, type='FUNCTION')
    n.left = left
    left.parent = n
    left.flag = True
    if right is not None:
        n.right = right
        right.parent = n
        right.flag = False
    return n


def hand_trees():
    return [
        T(0),
        F('EXP', T(1)),
        F('SUM', T(0), T(1)),
        F('SUM', F('EXP', T(2)), T(3)),
        F('MUL', T(4), F('SUB', T(5), T(6))),
        F('DIV', F('SUM', T(0), T(1)), F('MUL', T(2), T(3))),
        F('LOG', F('SQRT', F('ABS', T(7)))),
        F('SUB', F('SIN', F('SUM', T(1), F('COS', T(2)))), F('DIV', F('EXP', T(3)), T(4))),
    ]


opt = GP()

# 1. exhaustive: every ordered pair of hand-built trees, every pair of crossover points
#    (0 and 1 and beyond-the-end included; the draws are scripted, the real stream still moves)
trees = hand_trees()
np.random.seed(11)
for i, father in enumerate(trees):
    for j, mother in enumerate(trees):
        nf, nm = len(walk(father)), len(walk(mother))
        for pf in range(0, nf + 2):
            for pm in range(0, nm + 2):
                alias = {}
                put('pair', i, j, pf, pm)
                r.generate_uniform_random_number = scripted([pf + 0.5, pm + 0.25])
                try:
                    a, b = opt._cross(father, mother, nf, nm)
                    put_tree(a, alias)
                    put_tree(b, alias)
                    put(disjoint(a, b, father, mother))
                except BaseException as ex:  # noqa
                    put('raised', type(ex).__name__, str(ex))
                finally:
                    r.generate_uniform_random_number = real_uniform
                # the parents are left untouched
                put_tree(father, alias)
                put_tree(mother, alias)
put_rng()

# 2. same tree as father and mother, and a tree crossed with its own offspring
for i, tree in enumerate(hand_trees()):
    n = len(walk(tree))
    if n < 2:
        continue
    np.random.seed(200 + i)
    a, b = opt._cross(tree, tree, n, n)
    c, d = opt._cross(a, tree, len(walk(a)), n)
    alias = {}
    for t in (a, b, c, d, tree):
        put_tree(t, alias)
    put(disjoint(a, b, c, d, tree))
    put_rng()

# 3. malformed inputs: flags that disagree with the position, missing children
def malformed():
    out = []
    t = F('SUM', T(0), T(1))
    t.left.flag = False
    out.append(t)
    t = F('SUM', T(0), T(1))
    t.right.flag = True
    out.append(t)
    t = F('EXP', T(2))
    t.left.flag = False          # points to the missing right child
    out.append(t)
    t = F('SUM', F('EXP', T(2)), T(3))
    t.left.flag = False
    out.append(t)
    t = F('MUL', T(4), F('SUB', T(5), T(6)))
    t.right.parent = None        # broken parent link
    out.append(t)
    return out


good = hand_trees()
for i, bad in enumerate(malformed()):
    for j, other in enumerate(good):
        nb, no = len(walk(bad)), len(walk(other))
        for pb in range(1, nb + 1):
            for po in range(1, no + 1):
                for order in (0, 1):
                    np.random.seed(300)
                    alias = {}
                    put('malformed', i, j, pb, po, order)
                    try:
                        if order == 0:
                            r.generate_uniform_random_number = scripted([pb + 0.5, po + 0.5])
                            a, b = opt._cross(bad, other, nb, no)
                        else:
                            r.generate_uniform_random_number = scripted([po + 0.5, pb + 0.5])
                            a, b = opt._cross(other, bad, no, nb)
                        put_tree(a, alias, evaluate=False)
                        put_tree(b, alias, evaluate=False)
                    except BaseException as ex:  # noqa
                        put('raised', type(ex).__name__, str(ex))
                    finally:
                        r.generate_uniform_random_number = real_uniform
                    put_tree(bad, alias, evaluate=False)
                    put_tree(other, alias, evaluate=False)
                    put_rng()

# 4. seeded: grown trees crossed with real random points, several prunning ratios
for k, (functions, depth) in enumerate(((['SUM', 'EXP'], 4), (ALL, 5), (['DIV', 'LOG', 'SUB'], 6), (['COS'], 3))):
    np.random.seed(500 + k)
    space = TreeSpace(n_trees=6, n_terminals=3, n_variables=2, n_iterations=3, min_depth=1, max_depth=depth,
                      functions=functions, lower_bound=[-2, 0], upper_bound=[2, 5])
    for ratio in (0, 0.3, 0.9, 1):
        g = GP(hyperparams={'prunning_ratio': ratio})
        for i in range(len(space.trees)):
            for j in range(len(space.trees)):
                fa, mo = space.trees[i], space.trees[j]
                if fa.n_nodes > 1 and mo.n_nodes > 1:
                    a, b = g._cross(fa, mo, g._prune_nodes(fa.n_nodes), g._prune_nodes(mo.n_nodes))
                    alias = {}
                    put_tree(a, alias)
                    put_tree(b, alias)
                    put(disjoint(a, b, fa, mo))
    put_rng()
    # the population-level operator
    for a in space.agents:
        a.fit = float(np.random.uniform())
    g = GP(hyperparams={'p_crossover': 0.9})
    for _ in range(5):
        g._crossover(space)
        alias = {}
        put_space(space, alias)
        put(disjoint(*space.trees, space.best_tree))
    put_rng()


def sphere(x):
    return float(np.sum(x ** 2))


def shifted(x):
    return float(np.sum(np.abs(x - 1.25)))


# 5. full runs; trees observed at every hook call
for k, functions in enumerate((['SUM', 'SUB', 'MUL', 'DIV'], ALL, ['EXP', 'SIN', 'SUM'])):
    np.random.seed(9000 + k)
    space = TreeSpace(n_trees=10, n_terminals=4, n_variables=2, n_iterations=8, min_depth=1, max_depth=5,
                      functions=functions, lower_bound=[-3, -3], upper_bound=[3, 3])
    g = GP(hyperparams={'p_reproduction': 0.3, 'p_mutation': 0.3, 'p_crossover': 0.8, 'prunning_ratio': 0.2 * k})

    def hook(optimizer, sp, fn):
        put_space(sp, {})
        put(disjoint(*sp.trees, sp.best_tree))

    history = g.run(space, Function(pointer=(sphere, shifted, sphere)[k]), pre_evaluation_hook=hook)
    put_space(space, {})
    for (pos, fit) in history.best_agent:
        put_array(pos)
        put(float(fit).hex())
    put_rng()

print(H.hexdigest())
