"""Exercises BHA.run on seeded inputs and prints a digest as its last line."""

import copy
import hashlib
import sys

import numpy as np

from opytimizer.core.agent import Agent
from opytimizer.core.function import Function
from opytimizer.spaces.search import SearchSpace

OPT_NAME = 'BHA'

if OPT_NAME == 'HS':
    from opytimizer.optimizers.hs import HS as Opt
    HYPER = [{}, {'HMCR': 0.5, 'PAR': 0.3, 'bw': 0.25}, {'HMCR': 0.0}, {'HMCR': 1.0, 'PAR': 1.0, 'bw': 2}]
elif OPT_NAME == 'BHA':
    from opytimizer.optimizers.bha import BHA as Opt
    HYPER = [{}]
elif OPT_NAME == 'PSO':
    from opytimizer.optimizers.pso import PSO as Opt
    HYPER = [{}, {'w': 0.4, 'c1': 1.2, 'c2': 2.1}, {'w': 0, 'c1': 0, 'c2': 0}]
else:
    from opytimizer.optimizers.sca import SCA as Opt
    HYPER = [{}, {'r_min': 0.5, 'r_max': 1.5, 'a': 2.5}, {'r_min': 0, 'r_max': 0, 'a': 0}]

OUT = []


def emit(x):
    """Appends a canonical textual form of x to the transcript."""

    if isinstance(x, (float, np.floating)):
        OUT.append(float(x).hex())
    elif isinstance(x, np.ndarray):
        OUT.append('A' + str(x.shape) + str(x.dtype))
        for v in x.ravel().tolist():
            emit(v)
    elif isinstance(x, (list, tuple)):
        OUT.append('L%d' % len(x))
        for v in x:
            emit(v)
    else:
        OUT.append(repr(x))


def rng_mark():
    """A fingerprint of the global random stream position."""

    st = np.random.get_state()
    return hashlib.sha256(st[1].tobytes() + repr(st[2:]).encode()).hexdigest()[:16]


def sphere(x):
    return np.sum(x ** 2)


def shifted(x):
    return float(np.sum((x - 0.3) ** 2) + 1.0)


def neg(x):
    return -np.sum(np.abs(x))


def with_nan(x):
    s = np.sum(x)
    return float('nan') if s > 1.0 else s * s


def const(x):
    return 1.0


class Counting:
    """An objective that records its calls and may raise at the k-th one."""

    def __init__(self, inner, fail_at=None):
        self.inner = inner
        self.fail_at = fail_at
        self.calls = 0
        self.seen = []

    def __call__(self, x):
        self.calls += 1
        self.seen.append(np.array(x, copy=True))
        if self.fail_at is not None and self.calls == self.fail_at:
            raise ZeroDivisionError('objective failed')
        return self.inner(x)


class Trace:
    """Collects the identities seen by the hooks."""

    def __init__(self):
        self.events = []


def hook_plain(trace):
    def hook(opt, space, function):
        trace.events.append(('plain', len(space.agents), float(space.best_agent.fit).hex(),
                             [a.position.ravel().tolist() for a in space.agents]))
    return hook


def hook_replace_agents(trace):
    def hook(opt, space, function):
        # Legally replaces the list of agents by copies (new objects), reversed
        new = [copy.deepcopy(a) for a in reversed(space.agents)]
        space.agents = new
        trace.events.append(('replace_agents', [a.position.ravel().tolist() for a in new]))
    return hook


def hook_replace_best(trace):
    def hook(opt, space, function):
        # Legally replaces the best agent by a brand-new object
        new = copy.deepcopy(space.best_agent)
        new.position = new.position + 0.0
        space.best_agent = new
        trace.events.append(('replace_best', float(new.fit).hex()))
    return hook


def hook_replace_both(trace):
    count = [0]

    def hook(opt, space, function):
        count[0] += 1
        if count[0] % 2 == 0:
            space.agents = [copy.deepcopy(a) for a in space.agents]
            b = Agent(n_variables=space.n_variables, n_dimensions=space.n_dimensions)
            space.best_agent = b
        else:
            for a in space.agents:
                a.position = a.position * 0.5
        trace.events.append(('both', count[0], rng_mark()))
    return hook


def hook_draws(trace):
    def hook(opt, space, function):
        # Consumes the random stream, so ordering of draws matters
        u = np.random.uniform(-0.1, 0.1)
        space.agents[0].position = space.agents[0].position + u
        trace.events.append(('draw', float(u).hex()))
    return hook


def hook_changes_iterations(trace):
    def hook(opt, space, function):
        # The loop length was fixed on entry; the log line reads the new value
        space.n_iterations = space.n_iterations + 1
        trace.events.append(('niter', space.n_iterations))
    return hook


def hook_raises(trace, at):
    count = [0]

    def hook(opt, space, function):
        count[0] += 1
        trace.events.append(('maybe_raise', count[0]))
        if count[0] == at:
            raise KeyError('hook failed')
    return hook


class FalsyHook:
    """A callable hook whose truth value is False: it must never be called."""

    def __init__(self, trace):
        self.trace = trace
        self.bools = 0

    def __bool__(self):
        self.bools += 1
        return False

    def __call__(self, opt, space, function):
        self.trace.events.append(('falsy-called',))
        space.agents[0].position = space.agents[0].position * 0.0


class SizedHook:
    """A callable hook whose truth value comes from __len__ (truthy)."""

    def __init__(self, trace):
        self.trace = trace

    def __len__(self):
        return 3

    def __call__(self, opt, space, function):
        self.trace.events.append(('sized', len(space.agents)))


def describe_space(space, ids0, best0):
    emit([a.position for a in space.agents])
    emit([a.fit for a in space.agents])
    emit(space.best_agent.position)
    emit(space.best_agent.fit)
    # Aliasing visible from outside
    emit(space.best_agent is best0)
    emit([ids0.index(id(a)) if id(a) in ids0 else -1 for a in space.agents])
    emit([a.position is space.best_agent.position for a in space.agents])
    emit(len({id(a.position) for a in space.agents}))
    emit(space.n_iterations)


def describe_history(hist):
    emit(sorted(k for k in hist.__dict__))
    for k in sorted(hist.__dict__):
        v = hist.__dict__[k]
        OUT.append(k)
        emit(_plain(v))


def _plain(v):
    if isinstance(v, np.ndarray):
        return v
    if isinstance(v, (list, tuple)):
        return [_plain(u) for u in v]
    return v


def scenario(label, seed, hyper, objective, n_agents, n_variables, n_iterations, lb, ub,
             make_hook=None, store_best_only=False, fail_at=None, pre=None):
    OUT.append('== ' + label)
    np.random.seed(seed)
    trace = Trace()
    obj = Counting(objective, fail_at)
    hist = None
    space = None
    ids0, best0 = [], None
    try:
        opt = Opt(hyperparams=dict(hyper))
        space = SearchSpace(n_agents=n_agents, n_variables=n_variables, n_iterations=n_iterations,
                            lower_bound=list(lb), upper_bound=list(ub))
        function = Function(pointer=obj)
        if pre is not None:
            pre(space)
        ids0 = [id(a) for a in space.agents]
        keep = list(space.agents)
        best0 = space.best_agent
        hook = make_hook(trace) if make_hook is not None else None
        if make_hook is None and label.endswith('#kw'):
            hist = opt.run(space, function)
        elif label.endswith('#pos'):
            hist = opt.run(space, function, store_best_only, hook)
        else:
            hist = opt.run(space, function, store_best_only=store_best_only, pre_evaluation_hook=hook)
        emit('ok')
        emit(type(hist).__name__)
        if isinstance(hook, FalsyHook):
            emit(hook.bools)
        del keep
    except Exception as exc:  # the exception type is part of the behaviour
        emit('raised ' + type(exc).__name__ + ' ' + str(exc))
    if space is not None:
        describe_space(space, ids0, best0)
    if hist is not None:
        describe_history(hist)
    emit(obj.calls)
    emit(obj.seen)
    emit(trace.events)
    emit(rng_mark())


def pre_equal_agents(space):
    for a in space.agents:
        a.position = np.full_like(a.position, 0.25)


def pre_best_known(space):
    space.best_agent.position = np.full_like(space.best_agent.position, 0.3)
    space.best_agent.fit = 1.0


def pre_out_of_bounds(space):
    for i, a in enumerate(space.agents):
        a.position = a.position + 10.0 * (-1) ** i


def main():
    objectives = [('sphere', sphere), ('shifted', shifted), ('neg', neg), ('nan', with_nan), ('const', const)]
    k = 0
    for hyper in HYPER:
        for oname, obj in objectives:
            for seed in (0, 7, 12345):
                k += 1
                scenario('basic %d %s %r' % (k, oname, hyper), seed, hyper, obj, 5, 3, 6,
                         [-1, -2, 0], [1, 2, 3])
    hyper = HYPER[min(1, len(HYPER) - 1)]
    hooks = [('plain', hook_plain), ('agents', hook_replace_agents), ('best', hook_replace_best),
             ('both', hook_replace_both), ('draws', hook_draws), ('niter', hook_changes_iterations),
             ('raise1', lambda t: hook_raises(t, 1)), ('raise2', lambda t: hook_raises(t, 2)),
             ('raise4', lambda t: hook_raises(t, 4)), ('falsy', FalsyHook), ('sized', SizedHook)]
    for hname, mk in hooks:
        for seed in (1, 2, 99):
            for sbo in (False, True):
                scenario('hook %s %d %r' % (hname, seed, sbo), seed, hyper, shifted, 4, 2, 5,
                         [-1, -1], [1, 2], make_hook=mk, store_best_only=sbo)
        scenario('hook %s #pos' % hname, 5, HYPER[0], sphere, 3, 2, 4, [-1, -1], [1, 2], make_hook=mk)
    # Edge cases
    for seed in (3, 4):
        scenario('one iteration', seed, hyper, sphere, 3, 2, 1, [0, 0], [1, 1])
        scenario('one agent', seed, hyper, sphere, 1, 2, 4, [-1, -1], [1, 1])
        scenario('one agent one variable', seed, hyper, neg, 1, 1, 3, [-1], [1])
        scenario('two agents', seed, hyper, shifted, 2, 1, 7, [-5], [5], make_hook=hook_replace_both)
        scenario('degenerate bounds', seed, hyper, sphere, 3, 2, 3, [0.5, -1], [0.5, -1])
        scenario('defaults #kw', seed, hyper, sphere, 3, 2, 3, [0, 0], [1, 1])
        scenario('equal agents', seed, hyper, shifted, 4, 2, 4, [0, 0], [1, 1], pre=pre_equal_agents)
        scenario('best known', seed, hyper, shifted, 4, 2, 4, [0, 0], [1, 1], pre=pre_best_known,
                 make_hook=hook_replace_best)
        scenario('out of bounds', seed, hyper, sphere, 4, 2, 4, [0, 0], [1, 1], pre=pre_out_of_bounds)
        scenario('many', seed, hyper, sphere, 12, 4, 15, [-3] * 4, [3] * 4, make_hook=hook_draws)
        for fail_at in (1, 2, 4, 5, 6, 9, 13):
            scenario('objective fails at %d' % fail_at, seed, hyper, sphere, 4, 2, 3, [-1, -1], [1, 1],
                     fail_at=fail_at, make_hook=hook_plain)
        scenario('string flag', seed, hyper, sphere, 3, 2, 2, [0, 0], [1, 1], store_best_only='yes')
        scenario('zero flag', seed, hyper, sphere, 3, 2, 2, [0, 0], [1, 1], store_best_only=0)
        scenario('non-callable hook', seed, hyper, sphere, 3, 2, 2, [0, 0], [1, 1],
                 make_hook=lambda t: 'not callable')
        scenario('zero hook', seed, hyper, sphere, 3, 2, 2, [0, 0], [1, 1], make_hook=lambda t: 0)
        scenario('bad hook arity', seed, hyper, sphere, 3, 2, 2, [0, 0], [1, 1],
                 make_hook=lambda t: (lambda space: None))
    # Invalid inputs to run itself
    np.random.seed(11)
    for bad in ('space', 'function'):
        OUT.append('== bad ' + bad)
        try:
            opt = Opt()
            space = SearchSpace(n_agents=2, n_variables=1, n_iterations=2, lower_bound=[0], upper_bound=[1])
            function = Function(pointer=sphere)
            if bad == 'space':
                opt.run(None, function)
            else:
                opt.run(space, None)
            emit('ok')
        except Exception as exc:
            emit('raised ' + type(exc).__name__ + ' ' + str(exc))
        emit(rng_mark())

    text = '\n'.join(OUT)
    print('scenarios/lines:', text.count('== '), len(OUT))
    print(hashlib.sha256(text.encode()).hexdigest())


if __name__ == '__main__':
    sys.exit(main())
