"""Digest of GP operator behaviour (C09): must be identical with and without the change."""
import copy
import hashlib
import itertools
import os
import tempfile

os.chdir(tempfile.mkdtemp())  # opytimizer.log goes to a scratch dir

import logging

import numpy as np

logging.disable(logging.CRITICAL)  # keep the output to the digest line

import opytimizer.math.general as g
import opytimizer.optimizers.gp as gpmod
import opytimizer.utils.constants as c
from opytimizer.core.function import Function
from opytimizer.core.node import Node
from opytimizer.optimizers.gp import GP
from opytimizer.spaces.tree import TreeSpace

H = hashlib.sha256()


def put(*items):
    for it in items:
        H.update(repr(it).encode())
        H.update(b'|')


def fhex(a):
    if a is None:
        return 'None'
    return [float(v).hex() for v in np.asarray(a, dtype=float).ravel()]


def ser(node, parent=None, out=None):
    """Own recursive serialisation (independent of Node.pre_order)."""
    if out is None:
        out = []
    if node is None:
        out.append('~')
        return out
    out.append((node.type, node.name, node.flag, fhex(node.value),
                node.parent is parent))
    ser(node.left, node, out)
    ser(node.right, node, out)
    return out


def rng():
    st = np.random.get_state()
    return hashlib.sha256(st[1].tobytes()).hexdigest()[:16], st[2]


def attempt(fn):
    try:
        return ('ok', fn())
    except BaseException as ex:  # noqa
        return ('exc', type(ex).__name__, str(ex))


FUNCS = ['SUM', 'SUB', 'MUL', 'DIV', 'EXP', 'SQRT', 'LOG', 'ABS', 'SIN', 'COS']


def make_space(seed, n_trees=10, n_terminals=3, n_variables=2, min_depth=1, max_depth=4,
               functions=FUNCS, n_iterations=3):
    np.random.seed(seed)
    return TreeSpace(n_trees=n_trees, n_terminals=n_terminals, n_variables=n_variables,
                     n_iterations=n_iterations, min_depth=min_depth, max_depth=max_depth,
                     functions=list(functions), lower_bound=[-5] * n_variables,
                     upper_bound=[5] * n_variables)


def dump_space(space):
    for t, a in zip(space.trees, space.agents):
        put(ser(t), fhex(a.position), float(a.fit).hex())
    put(ser(space.best_tree), fhex(space.best_agent.position), float(space.best_agent.fit).hex())


def sphere(x):
    return float(np.sum(x ** 2))


# ---- hand-made trees -------------------------------------------------------
def T(i):
    return Node(name=i, type='TERMINAL', value=np.array([[float(i) + 0.5]]))


def F(name, left, right=None):
    n = Node(name=name, type='FUNCTION', left=left, right=right)
    left.parent = n
    left.flag = True
    if right is not None:
        right.parent = n
        right.flag = False
    return n


def hand_trees():
    return [
        T(0),
        F('SUM', T(0), T(1)),
        F('EXP', T(2)),
        F('SUM', F('MUL', T(0), T(1)), T(2)),
        F('SUB', T(0), F('COS', T(1))),
        F('DIV', F('SIN', F('SUM', T(0), T(1))), F('MUL', T(2), F('ABS', T(3)))),
        F('LOG', F('SQRT', F('SUM', T(4), F('SUB', T(5), T(6))))),
    ]


# ---- 1. Node.find_node / pre_order / properties -----------------------------
for tree in hand_trees():
    put('pre', [(n.type, n.name, n.flag) for n in tree.pre_order])
    put('post', [(n.type, n.name, n.flag) for n in tree.post_order])
    put('props', tree.n_nodes, tree.n_leaves, tree.min_depth, tree.max_depth, fhex(tree.position))
    for pos in range(-3, tree.n_nodes + 3):
        def q(tree=tree, pos=pos):
            node, flag = tree.find_node(pos)
            idx = None if node is None else [i for i, n in enumerate(tree.pre_order) if n is node]
            return idx, flag
        put('find', pos, attempt(q))

# ---- 1b. find_node with unusual positions / node types (guard rewritten by this change) ----
for tree in hand_trees():
    for pos in (float('nan'), float('inf'), -float('inf'), 2.0, 1.5, True, False, None, '1',
                np.int64(2), np.float64('nan'), 10 ** 30, -10 ** 30):
        def q(tree=tree, pos=pos):
            node, flag = tree.find_node(pos)
            idx = None if node is None else [i for i, n in enumerate(tree.pre_order) if n is node]
            return idx, flag
        put('find-odd', repr(pos), attempt(q))
odd = F('SUM', F('MUL', T(0), T(1)), T(2))
odd.left._type = 'OTHER'          # bypasses the setter: neither TERMINAL nor FUNCTION
odd.left.left._type = 'OTHER'
for pos in range(0, 7):
    put('find-othertype', pos, attempt(lambda: odd.find_node(pos)[1]), attempt(lambda: odd.find_node(pos)[0] is None))

# ---- 2. general.pairwise / tournament_selection -----------------------------
for vals in ([], [1], [1, 2], [1, 2, 3], list(range(8)), 'abcde', (4, 5, 6, 7)):
    put('pairwise', list(g.pairwise(vals)))
put('pairwise-bad', attempt(lambda: g.pairwise(5)))
put('pairwise-type', type(g.pairwise([1, 2])).__name__)
for seed in range(6):
    np.random.seed(seed)
    fit = list(np.random.uniform(0, 10, 12))
    for n in (0, 1, 2, 5, 12):
        put('tour', seed, n, [int(i) for i in g.tournament_selection(fit, n)], rng())
    fit_ties = [1.0, 1.0, 3.0, 0.5, 0.5, 7.0]
    put('tour-ties', [int(i) for i in g.tournament_selection(fit_ties, 9)], rng())
    put('tour-arr', [int(i) for i in g.tournament_selection(np.array(fit_ties), 4)], rng())
np.random.seed(3)
put('tour-nan', attempt(lambda: [int(i) for i in g.tournament_selection([float('nan')] * 4, 3)]), rng())
put('tour-empty', attempt(lambda: g.tournament_selection([], 2)), rng())
put('tour-empty0', attempt(lambda: g.tournament_selection([], 0)), rng())

# ---- 3. GP._cross / GP._mutate with scripted points (exhaustive) ---------------
opt = GP()
orig_uniform = gpmod.r.generate_uniform_random_number


class Script:
    def __init__(self, values):
        self.values = list(values)
        self.calls = []

    def __call__(self, low=0.0, high=1.0, size=1):
        self.calls.append((low, high, size))
        return np.array([self.values.pop(0)])


trees = hand_trees()
for fa, mo in itertools.product(trees, trees):
    for pf in range(0, fa.n_nodes + 2):
        for pm in range(0, mo.n_nodes + 2):
            before = (ser(fa), ser(mo))
            script = Script([pf + 0.25, pm + 0.75])
            gpmod.r.generate_uniform_random_number = script
            try:
                res = attempt(lambda: opt._cross(fa, mo, fa.n_nodes, mo.n_nodes))
            finally:
                gpmod.r.generate_uniform_random_number = orig_uniform
            if res[0] == 'ok':
                a, b = res[1]
                put('cross', pf, pm, ser(a), ser(b), a is fa, b is mo, fhex(a.position), fhex(b.position))
            else:
                put('cross', pf, pm, res)
            put(script.calls, (ser(fa), ser(mo)) == before)

for seed, tree in enumerate(trees):
    space = make_space(100 + seed, n_trees=2)
    for pt in range(0, tree.n_nodes + 2):
        before = ser(tree)
        np.random.seed(1000 * seed + pt)

        def scripted(low=0.0, high=1.0, size=1, _state={'first': True}, pt=pt):
            # only the first call (the mutation point) is scripted; grow() draws from the seeded stream
            if _state['first']:
                _state['first'] = False
                return np.array([pt + 0.5])
            return orig_uniform(low, high, size)
        gpmod.r.generate_uniform_random_number = scripted
        try:
            res = attempt(lambda: opt._mutate(space, tree, tree.n_nodes))
        finally:
            gpmod.r.generate_uniform_random_number = orig_uniform
        put('mutate', pt, ser(res[1]) if res[0] == 'ok' else res, ser(tree) == before, rng())

# ---- 4. seeded _cross / _mutate on grown trees ------------------------------
for seed in range(8):
    space = make_space(seed, n_trees=6, max_depth=5)
    opt = GP(hyperparams={'prunning_ratio': [0, 0.3, 0.9, 1][seed % 4]})
    for i, j in itertools.permutations(range(space.n_trees), 2):
        ti, tj = space.trees[i], space.trees[j]
        if ti.n_nodes > 1 and tj.n_nodes > 1:
            res = attempt(lambda: opt._cross(ti, tj, opt._prune_nodes(ti.n_nodes), opt._prune_nodes(tj.n_nodes)))
            put('scross', seed, i, j, [ser(x) for x in res[1]] if res[0] == 'ok' else res, rng())
    for i in range(space.n_trees):
        ti = space.trees[i]
        res = attempt(lambda: opt._mutate(space, ti, opt._prune_nodes(max(ti.n_nodes, 2))))
        put('smutate', seed, i, ser(res[1]) if res[0] == 'ok' else res, ser(ti), rng())

# ---- 5. population operators and complete runs ------------------------------
configs = [
    dict(p_reproduction=0.25, p_mutation=0.1, p_crossover=0.1, prunning_ratio=0),
    dict(p_reproduction=1, p_mutation=1, p_crossover=1, prunning_ratio=0.5),
    dict(p_reproduction=0, p_mutation=0, p_crossover=0, prunning_ratio=0),
    dict(p_reproduction=0.5, p_mutation=0.35, p_crossover=0.3, prunning_ratio=1),
    dict(p_reproduction=0.9, p_mutation=0.0, p_crossover=0.55, prunning_ratio=0.2),
]
for seed, (cfg, (n_trees, funcs, mind, maxd)) in enumerate(itertools.product(
        configs, [(1, FUNCS, 1, 3), (5, ['SUM', 'EXP'], 1, 4), (12, FUNCS, 2, 5), (7, [], 1, 2), (9, FUNCS, 3, 3)])):
    space = make_space(seed, n_trees=n_trees, functions=funcs, min_depth=mind, max_depth=maxd)
    opt = GP(hyperparams=cfg)
    fn = Function(pointer=sphere)
    opt._evaluate(space, fn)
    dump_space(space)
    for step in ('_reproduction', '_crossover', '_mutation'):
        res = attempt(lambda: getattr(opt, step)(space))
        put(step, seed, res, rng())
        dump_space(space)
        opt._evaluate(space, fn)
    res = attempt(lambda: opt.run(space, fn))
    put('run', seed, res[0] if res[0] == 'ok' else res, rng())
    dump_space(space)
    if res[0] == 'ok':
        hist = res[1]
        put([(fhex(p), float(f).hex()) for p, f in hist.best_agent])
        put([ser(t) for t in hist.best_tree])

# reproduction with tied / special fitness vectors
for seed, fits in enumerate([[1.0] * 6, [3.0, 1.0, 2.0, 3.0, 0.0, -1.0], [0.0, 0.0, 5.0, 5.0, 2.0, 2.0],
                             [-1.0, -2.0, -3.0, -4.0, -5.0, -6.0], [float('inf'), 1.0, 2.0, float('inf'), 0.5, 0.25]]):
    space = make_space(50 + seed, n_trees=6)
    for a, f in zip(space.agents, fits):
        a.fit = f
    opt = GP(hyperparams={'p_reproduction': 0.7})
    np.random.seed(seed)
    put('repro-fit', attempt(lambda: opt._reproduction(space)), rng())
    dump_space(space)
    put([space.trees[i] is space.trees[j] for i in range(6) for j in range(i)])

print(H.hexdigest())
