"""Exercises opytimizer.math.distribution (Levy and Bernoulli generators) on
seeded inputs and prints a digest as the last line."""

import hashlib
import warnings
from fractions import Fraction

import numpy as np

import opytimizer.math.distribution as d

warnings.simplefilter('ignore')
np.seterr(all='ignore')

h = hashlib.sha256()


def rec(*items):
    for it in items:
        h.update(repr(it).encode())
        h.update(b'|')


def enc(out):
    a = np.asarray(out)
    if a.dtype.kind == 'c':
        vals = [(float(z.real).hex(), float(z.imag).hex()) for z in a.ravel()]
    else:
        vals = [float(z).hex() for z in a.ravel()]
    return (type(out).__name__, str(a.dtype), a.shape, vals)


def attempt(tag, fn):
    try:
        rec(tag, 'ok', enc(fn()))
    except BaseException as ex:  # noqa
        rec(tag, 'exc', type(ex).__name__, str(ex))
    # state of the global stream after the call
    rec(tag, 'stream', float(np.random.uniform()).hex())


betas = [0.1, 0.3, 0.5, 1.0, 1.5, 1.99, 2.0, 2.5, 3.0, 1, 2, 3, 0, 0.0, -0.5, -1, -1.0, -3.0,
         1e-3, 1e-9, 50.0, 170.0, 171.5, 1e308, float('inf'), float('nan'),
         np.float64(1.5), np.float32(0.7), np.float64(0.0), np.int64(2), np.int64(0),
         np.array([1.5]), np.array(1.5), Fraction(3, 2), True, False, None, '1.5', 1.5 + 0j]
sizes = [1, 2, 7, 0, (2, 3), None]

for seed in (0, 5, 2024):
    for bi, beta in enumerate(betas):
        for size in sizes:
            np.random.seed(seed)
            attempt(f'levy/{seed}/{bi}/{beta!r}/{size!r}',
                    lambda: d.generate_levy_distribution(beta, size))

np.random.seed(1)
attempt('levy/defaults', lambda: d.generate_levy_distribution())
for bad in (-1, 2.5, 'x'):
    np.random.seed(1)
    attempt(f'levy/badsize/{bad!r}', lambda: d.generate_levy_distribution(1.5, bad))

# A long seeded sequence of calls sharing one stream
np.random.seed(77)
for k in range(50):
    beta = float(np.random.uniform(0.05, 1.99))
    attempt(f'levy/seq/{k}', lambda: d.generate_levy_distribution(beta, 4))

# The neighbouring generator in the same module
for seed in (0, 3):
    for prob in (0.0, 0.3, 1.0, 1.5, float('nan')):
        for size in (1, 6, 0):
            np.random.seed(seed)
            attempt(f'bern/{seed}/{prob}/{size}',
                    lambda: d.generate_bernoulli_distribution(prob, size))

print(h.hexdigest())
