"""Digest of HS / IHS constructor outcomes for hyperparameter dictionaries (with the
logged lines and the order in which the dictionary is consulted) and of seeded runs."""
import hashlib
import itertools
import logging
import sys

import numpy as np

from opytimizer.core.function import Function
from opytimizer.optimizers.hs import HS
from opytimizer.optimizers.ihs import IHS
from opytimizer.spaces.search import SearchSpace

out = []


class Capture(logging.Handler):
    def emit(self, record):
        out.append(f'log {record.name} {record.levelname} {record.getMessage()}')


# silence the library's console/file handlers, keep every record in the digest
# (the library's loggers do not propagate, so the capture handler goes on each of them)
CAPTURE = Capture()
for lname, lg in list(logging.Logger.manager.loggerDict.items()):
    if lname.startswith('opytimizer') and isinstance(lg, logging.Logger):
        for hd in list(lg.handlers):
            lg.removeHandler(hd)
            hd.close()
        lg.addHandler(CAPTURE)


def show(v):
    if isinstance(v, float):
        return 'float:' + v.hex()
    if isinstance(v, np.ndarray):
        return 'nd:' + str(v.dtype) + ':' + str(v.shape) + ':' + ','.join(float(x).hex() for x in v.ravel())
    if callable(v) or type(v) is object:
        return type(v).__name__ + ':' + getattr(v, '__name__', '?')
    return type(v).__name__ + ':' + repr(v)


def err(ex):
    return f'{type(ex).__module__}.{type(ex).__name__} {ex.args!r}'


class Recording(dict):
    """A dictionary that records how it is consulted."""

    def __init__(self, *a, **k):
        super().__init__(*a, **k)
        self.trace = []

    def __contains__(self, key):
        self.trace.append(('in', key))
        return super().__contains__(key)

    def __getitem__(self, key):
        self.trace.append(('get', key))
        return super().__getitem__(key)

    def __bool__(self):
        self.trace.append(('bool',))
        return len(self) > 0


class Liar(Recording):
    """Claims to hold every key (so that the lookup itself fails)."""

    def __contains__(self, key):
        self.trace.append(('in', key))
        return True


def state(o):
    names = ['HMCR', 'PAR', 'bw', 'PAR_min', 'PAR_max', 'bw_min', 'bw_max', 'built', 'algorithm']
    return ' '.join(f'{n}={show(getattr(o, n))}' for n in names if hasattr(o, n)) + f' vars={sorted(vars(o))}'


VALUES = [0, 1, 0.0, 1.0, 0.5, -0.0, -5e-324, np.nextafter(1.0, 2.0).item(), -1, 2, True, float('nan'), float('inf'),
          np.float64(0.5), np.float32(0.5), np.int64(1), None, '0.5', [0.5], np.array([0.5, 2.0]), 1j]

for cls in (HS, IHS):
    # single keys
    for key in ('HMCR', 'PAR', 'bw', 'hmcr', 'other'):
        for k, v in enumerate(VALUES):
            hp = Recording({key: v})
            try:
                o = cls(hyperparams=hp)
                out.append(f'{cls.__name__} one {key} {k} ok {state(o)} same={o.hyperparams is hp} '
                           f'id={getattr(o, key, None) is v} trace={hp.trace!r}')
            except BaseException as ex:
                out.append(f'{cls.__name__} one {key} {k} {err(ex)} trace={hp.trace!r}')
    # all three keys, every insertion order, valid / invalid mixes: the first failing key in
    # HMCR, PAR, bw order decides, whatever the dictionary order is
    choices = [0.25, -1, 'x']
    for vals in itertools.product(choices, repeat=3):
        for order in itertools.permutations(range(3)):
            keys = ('HMCR', 'PAR', 'bw')
            hp = Recording((keys[i], vals[i]) for i in order)
            try:
                o = cls(hyperparams=hp)
                out.append(f'{cls.__name__} mix {vals!r} {order!r} ok {state(o)} trace={hp.trace!r}')
            except BaseException as ex:
                out.append(f'{cls.__name__} mix {vals!r} {order!r} {err(ex)} trace={hp.trace!r}')
    # unusual containers
    for k, hp in enumerate([{}, None, 0, (), [], 'HMCR', 'PAR', ['bw'], ('HMCR', 'PAR'), {'HMCR'}, 5, 1.5,
                            Recording(), Liar(), Liar(HMCR=0.1), Liar(HMCR=0.1, PAR=0.2), Liar(HMCR=0.1, PAR=0.2, bw=3),
                            np.array([1.0]), np.array([])]):
        try:
            with np.errstate(all='ignore'):
                o = cls(hyperparams=hp)
            out.append(f'{cls.__name__} odd {k} ok {state(o)} same={o.hyperparams is hp} '
                       f'trace={(hp.trace if isinstance(hp, Recording) else None)!r}')
        except BaseException as ex:
            out.append(f'{cls.__name__} odd {k} {err(ex)} trace={(hp.trace if isinstance(hp, Recording) else None)!r}')
    # default argument and rebuilding an existing object (previous values kept on rejection)
    o = cls()
    out.append(f'{cls.__name__} default {state(o)}')
    for hp in ({'HMCR': 0.1, 'PAR': 2, 'bw': 7}, {'bw': -1, 'HMCR': 0.9}, {'PAR': 0.3}):
        try:
            o._build(hp)
            out.append(f'{cls.__name__} rebuild ok {state(o)}')
        except BaseException as ex:
            out.append(f'{cls.__name__} rebuild {err(ex)} {state(o)} hp={o.hyperparams is hp}')

# IHS-specific keys go through HS._build first
for hp in ({'HMCR': 0.5, 'PAR_min': 0.1, 'PAR_max': 0.9, 'bw_min': 1, 'bw_max': 10},
           {'PAR': 5, 'PAR_min': -1}, {'PAR_min': 0.9, 'PAR_max': 0.1}, {'bw_min': 5, 'bw_max': 1, 'bw': -1}):
    hp = Recording(hp)
    try:
        o = IHS(hyperparams=hp)
        out.append(f'IHS keys ok {state(o)} trace={hp.trace!r}')
    except BaseException as ex:
        out.append(f'IHS keys {err(ex)} trace={hp.trace!r}')


def sphere(x):
    return float(np.sum(x ** 2))


def rastrigin(x):
    return float(np.sum(x ** 2 - 10 * np.cos(2 * np.pi * x) + 10))


for seed, cls, fn, hp, na, nv, it in [
    (0, HS, sphere, {}, 5, 2, 30),
    (1, HS, rastrigin, {'HMCR': 0, 'PAR': 0, 'bw': 0}, 3, 1, 20),
    (2, HS, sphere, {'HMCR': 1, 'PAR': 1, 'bw': 10}, 4, 3, 25),
    (3, HS, rastrigin, {'bw': 0.01, 'HMCR': 0.9}, 6, 4, 40),
    (4, IHS, sphere, {}, 5, 2, 30),
    (5, IHS, rastrigin, {'PAR': 0.2, 'HMCR': 0.5, 'PAR_min': 0.1, 'PAR_max': 0.9, 'bw_min': 1, 'bw_max': 10}, 4, 3, 25),
    (6, HS, sphere, {'HMCR': float('nan'), 'PAR': True}, 3, 2, 10),
]:
    np.random.seed(seed)
    space = SearchSpace(n_agents=na, n_iterations=it, n_variables=nv,
                        lower_bound=[-5.0] * nv, upper_bound=[5.0] * nv)
    n0 = len(out)
    cls(hyperparams=hp).run(space, Function(pointer=fn))
    del out[n0:]  # iteration logs print arrays; the numbers below carry the same information exactly
    out.append(f'run {seed} best {show(space.best_agent.position)} {show(float(space.best_agent.fit))}')
    for a in space.agents:
        out.append(f'run {seed} agent {show(a.position)} {show(float(a.fit))}')
    out.append(f'run {seed} next {np.random.uniform().hex()}')

if '-v' in sys.argv:
    print('\n'.join(out))
print(len(out), hashlib.sha256('\n'.join(out).encode()).hexdigest())
