"""Exercises Function (pointer validation, building, evaluation) and prints a digest."""
import functools
import hashlib

import numpy as np

from opytimizer.core.function import Function

out = []


def rec(tag, thunk):
    try:
        v = thunk()
    except BaseException as exc:  # noqa
        out.append(f'{tag}: EXC {type(exc).__module__}.{type(exc).__name__}: {exc}')
        return None
    out.append(f'{tag}: {v if isinstance(v, str) else type(v).__name__}')
    return v


def fhex(v):
    a = np.asarray(v, dtype=float).ravel()
    return ','.join(float(t).hex() for t in a)


def sphere(x):
    return np.sum(x ** 2)


def two(x, y):
    return x + y


def zero():
    return 1.0


def var(*args):
    return 2.0


def kw(x, **kwargs):
    return 3.0


def dflt(x, y=1):
    return 4.0


class Callable1:
    def __call__(self, x):
        return np.sum(np.abs(x))


class Callable2:
    def __call__(self, x, y):
        return 0


class Meth:
    def one(self, x):
        return np.prod(x)

    def two(self, x, y):
        return 0


candidates = [
    ('sphere', sphere), ('two', two), ('zero', zero), ('var', var), ('kw', kw), ('dflt', dflt),
    ('lambda1', lambda x: x), ('lambda2', lambda x, y: x), ('callable1', Callable1()),
    ('callable2', Callable2()), ('meth1', Meth().one), ('meth2', Meth().two),
    ('partial1', functools.partial(two, 1)), ('partial0', functools.partial(two, 1, 2)),
    ('partial2', functools.partial(two)), ('builtin_callable', callable), ('np.sum', np.sum),
    ('abs', abs), ('len', len), ('int_type', int), ('dict_type', dict), ('Function_cls', Function),
    ('none', None), ('int', 3), ('str', 'f'), ('list', [sphere]), ('float', 1.5), ('tuple', (sphere,)),
]

rng = np.random.RandomState(1234)
points = [rng.uniform(-5, 5, size=(n, 1)) for n in (1, 2, 5)]

for name, cand in candidates:
    f = rec(f'new[{name}]', lambda: Function(pointer=cand))
    if f is None:
        continue
    out.append(f'id[{name}]: {f.pointer is cand} {f._pointer is cand} built={f.built}')
    for k, p in enumerate(points):
        rec(f'eval[{name}][{k}]', lambda: fhex(f.pointer(p)))

# Default construction
f = rec('default', lambda: Function())
out.append(f'default: {f.pointer is callable} {f.built}')

# Re-setting the pointer on an existing instance: failure keeps the old pointer
f = Function(pointer=sphere)
for name, cand in candidates:
    rec(f'set[{name}]', lambda: setattr(f, 'pointer', cand))
    out.append(f'after set[{name}]: {getattr(f.pointer, "__name__", type(f.pointer).__name__)} {f.built}')

# _build directly
f = Function(pointer=sphere)
f.built = False
rec('build bad', lambda: f._build(two))
out.append(f'after bad build: {f.pointer is sphere} {f.built}')
rec('build good', lambda: f._build(kw))
out.append(f'after good build: {f.pointer is kw} {f.built}')

# Random stream untouched
np.random.seed(7)
Function(pointer=sphere)
out.append('rand: ' + np.random.uniform().hex())

text = '\n'.join(out)
print(hashlib.sha256(text.encode()).hexdigest())
