"""Digest of History behaviour (dump/_parse/get/save/load/__str__) and convergence.plot on seeded inputs."""
import contextlib
import hashlib
import io
import os
import pickle
import tempfile

import matplotlib
matplotlib.use('Agg')
import numpy as np

import opytimizer.utils.exception as e
from opytimizer import Opytimizer
from opytimizer.core.function import Function
from opytimizer.optimizers.pso import PSO
from opytimizer.optimizers.hs import HS
from opytimizer.optimizers.bha import BHA
from opytimizer.spaces.search import SearchSpace
from opytimizer.utils.history import History
from opytimizer.visualization import convergence

H = hashlib.sha256()


def canon(x):
    """Canonical text of nested records (floats by hex, types kept)."""
    if isinstance(x, np.ndarray):
        return 'nd%s%s[' % (x.dtype, x.shape) + ','.join(canon(v) for v in x.ravel().tolist()) + ']'
    if isinstance(x, (float, np.floating)):
        return type(x).__name__ + ':' + float(x).hex()
    if isinstance(x, (list, tuple)):
        return type(x).__name__ + '(' + ','.join(canon(v) for v in x) + ')'
    if isinstance(x, dict):
        return '{' + ','.join(repr(k) + '=' + canon(v) for k, v in x.items()) + '}'
    return type(x).__name__ + ':' + repr(x)


def put(tag, x):
    H.update((tag + '|' + canon(x) + '\n').encode())


def attempt(tag, f):
    try:
        put(tag, f())
    except BaseException as err:  # same exception type and message required
        put(tag + '!exc', (type(err).__module__, type(err).__name__, str(err)))


def sphere(x):
    return np.sum(x ** 2)


def exercise(tag, h):
    put(tag + ':dict', h.__dict__)
    put(tag + ':keys', list(h.__dict__.keys()))
    indices = {
        'agents': [(0, 0), (0, 1), (1, 0), (-1, 1), (0,), (0, 0, 0), (0, 0, 0, 0), (99, 0), 0, [0, 0], None,
                   (slice(None), 1), (0, slice(None))],
        'best_agent': [(0,), (1,), (2,), (), (0, 0), (0, 0, 0), '0'],
        'local': [(0,), (0, 0), (0, 0, 0), (1, -1, 0), ()],
        'time': [(), (0,)],
        'extra': [(), (0,), (0, 0)],
        'missing': [(0,), 0],
        'store_best_only': [(), (0,)],
    }
    for key, idxs in indices.items():
        for idx in idxs:
            attempt('%s:get:%s:%r' % (tag, key, idx), lambda: h.get(key, idx))
    # save / load round trip and the bytes written
    fd, path = tempfile.mkstemp(suffix='.pkl')
    os.close(fd)
    try:
        h.save(path)
        with open(path, 'rb') as f:
            raw = f.read()
        put(tag + ':bytes', hashlib.sha256(raw).hexdigest())
        for sbo in (False, True):
            g = History(store_best_only=sbo)
            g.stale = 'kept'
            put(tag + ':loadret', g.load(path))
            put(tag + ':loaded', g.__dict__)
            put(tag + ':loadedkeys', list(g.__dict__.keys()))
            attempt(tag + ':loaded:get', lambda: g.get('best_agent', (0,)))
    finally:
        os.remove(path)
    out = io.StringIO()
    with contextlib.redirect_stdout(out):
        attempt(tag + ':str', lambda: str(h))
    put(tag + ':printed', out.getvalue())


# 1. histories of real seeded runs
for name, cls, hp in (('pso', PSO, {}), ('hs', HS, {}), ('bha', BHA, {})):
    for n_agents, n_vars, n_iter in ((1, 1, 1), (3, 2, 4), (5, 3, 2)):
        for sbo in (False, True):
            np.random.seed(1234 + n_agents * 7 + n_vars)
            space = SearchSpace(n_agents=n_agents, n_iterations=n_iter, n_variables=n_vars,
                                lower_bound=[-3.0] * n_vars, upper_bound=[4.0] * n_vars)
            opt = Opytimizer(space=space, optimizer=cls(hyperparams=hp), function=Function(pointer=sphere))
            h = opt.start(store_best_only=sbo)
            put('rng-after', np.random.uniform())
            # wall-clock time is not reproducible: replace by a fixed record
            if hasattr(h, 'time'):
                h.time = [0.5 * (i + 1) for i in range(len(h.time))]
            exercise('%s-%d-%d-%d-%s' % (name, n_agents, n_vars, n_iter, sbo), h)


# 2. hand-built histories through dump(), including edge cases
class FakeAgent:
    def __init__(self, pos, fit):
        self.position = np.asarray(pos, dtype=float)
        self.fit = fit


for sbo in (False, True, 1, 0, '', 'yes', None):
    rs = np.random.RandomState(7)
    h = History(store_best_only=sbo)
    for t in range(3):
        agents = [FakeAgent(rs.uniform(-1, 1, (2, 1)), float(rs.uniform())) for _ in range(4)]
        agents[1].fit = np.float64(rs.uniform())
        agents[2].fit = float('nan') if t == 1 else float('inf')
        local = [rs.uniform(-1, 1, (2, 1)) for _ in range(4)]
        put('dumpret', h.dump(agents=agents, best_agent=agents[t], local=local, extra=[t, t + 0.5],
                              time=0.25 * t))
    exercise('hand-regular-%r' % (sbo,), h)
    h.dump()                       # no keys: nothing happens
    h.dump(only_once={'a': 1})     # free key
    h.dump(agents=[], local=[])    # empty population makes records ragged in length
    exercise('hand-%r' % (sbo,), h)

# pre-existing attribute that is not a list, iterable `value`s, wrong values
h = History()
h.agents = ()
attempt('tuple-attr', lambda: h.dump(agents=[FakeAgent([[1.0]], 2.0)]))
put('tuple-attr:dict', h.__dict__)
h = History()
attempt('bad-agents', lambda: h.dump(agents=[1, 2]))
attempt('bad-best', lambda: h.dump(best_agent=None))
attempt('bad-local', lambda: h.dump(local=3))
attempt('gen-agents', lambda: h.dump(agents=(a for a in [FakeAgent([[1.0], [2.0]], 2.0)]),
                                    local=iter([np.zeros((2, 1))])))
put('bad:dict', h.__dict__)
attempt('parse-unknown', lambda: h._parse('nokey', 3))
attempt('parse-agents', lambda: h._parse('agents', [FakeAgent([[1.0], [2.0]], 0.1)]))
attempt('parse-best', lambda: h._parse('best_agent', FakeAgent([[1.0], [2.0]], 0.1)))
attempt('parse-local', lambda: h._parse('local', (np.arange(3.0), np.ones((2, 2)))))
attempt('load-missing', lambda: History().load('/nonexistent/dir/x.pkl'))
attempt('save-missing', lambda: History().save('/nonexistent/dir/x.pkl'))
fd, path = tempfile.mkstemp()
os.close(fd)
with open(path, 'wb') as f:
    f.write(b'not a pickle')
g = History()
attempt('load-garbage', lambda: g.load(path))
put('load-garbage:dict', g.__dict__)
with open(path, 'wb') as f:
    pickle.dump({'a': 1}, f)
attempt('load-dict', lambda: g.load(path))
put('load-dict:dict', g.__dict__)
os.remove(path)
attempt('str-empty', lambda: str(History()))

# 3. convergence.plot: labels generated / checked, lines drawn
import matplotlib.pyplot as plt
seen = []
plt.show = lambda *a, **k: seen.append([(l.get_label(), l.get_ydata().tolist())
                                        for l in plt.gcf().axes[0].get_lines()]
                                       + [t.get_text() for t in (plt.gcf().axes[0].get_legend().get_texts()
                                                                 if plt.gcf().axes[0].get_legend() else [])])
a1, a2, a3 = [1.0, 0.5, 0.25], np.array([3.0, 2.0]), [0.0]
for args, kw in (((a1,), {}), ((a1, a2, a3), {}), ((), {'legend': False}), ((a1, a2), {'labels': ['x', 'y']}),
                 ((a1, a2), {'labels': ['x']}), ((a1,), {'labels': 'x'}), ((a1,), {'labels': ('x',)}),
                 ((a1, a2), {'labels': [], 'grid': False, 'title': 't', 'subtitle': 's'}),
                 ((a1, a2), {'labels': ['x', 'y', 'z']})):
    seen.clear()
    attempt('plot:%d:%r' % (len(args), kw), lambda: convergence.plot(*args, **kw))
    put('plot:seen', list(seen))
    plt.close('all')

print(H.hexdigest())
