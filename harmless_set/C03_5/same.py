import hashlib
import warnings

import numpy as np

warnings.simplefilter('ignore')

from opytimizer.core.function import Function
from opytimizer.spaces.search import SearchSpace

_H = hashlib.sha256()
_N = [0]


def feed(x):
    """Feeds any (nested) value into the running digest, floats as float.hex()."""
    _N[0] += 1
    if isinstance(x, np.ndarray):
        _H.update(('A%s%s[' % (x.dtype, x.shape)).encode())
        for v in x.ravel().tolist():
            feed(v)
        _H.update(b']')
    elif isinstance(x, (bool, np.bool_)):
        _H.update(('b%d;' % bool(x)).encode())
    elif isinstance(x, (float, np.floating)):
        _H.update(('f' + float(x).hex() + ';').encode())
    elif isinstance(x, (int, np.integer)):
        _H.update(('i%d;' % int(x)).encode())
    elif isinstance(x, str):
        _H.update(('s' + x + ';').encode())
    elif x is None:
        _H.update(b'N;')
    elif isinstance(x, (list, tuple)):
        _H.update(b'(')
        for v in x:
            feed(v)
        _H.update(b')')
    elif isinstance(x, dict):
        _H.update(b'{')
        for k in x:
            feed(k)
            feed(x[k])
        _H.update(b'}')
    else:
        _H.update(('o' + type(x).__name__ + ';').encode())


def rng_state():
    s = np.random.get_state()
    return [s[0], hashlib.sha256(s[1].tobytes()).hexdigest(), int(s[2]), int(s[3]), float(s[4])]


def sphere(x):
    return np.sum(x ** 2)


def shifted(x):
    return np.sum((x - 0.3) ** 2) - 1.0


def rastrigin(x):
    return float(np.sum(x ** 2 - 10 * np.cos(2 * np.pi * x) + 10))


def constant(x):
    return 1.0


def negsum(x):
    return -np.sum(x)


def nan_some(x):
    s = np.sum(x)
    return float('nan') if s > 0.5 else float(s)


def make_space(seed, n_agents, n_variables, n_iterations, lb, ub):
    np.random.seed(seed)
    return SearchSpace(n_agents=n_agents, n_variables=n_variables, n_iterations=n_iterations,
                       lower_bound=lb, upper_bound=ub)


def snapshot_space(space):
    feed([[a.position, a.fit] for a in space.agents])
    feed([space.best_agent.position, space.best_agent.fit])


def traced(fn, trace):
    def objective(x):
        trace.append(('eval', np.array(x, copy=True)))
        return fn(x)
    return objective


def feed_history(hist):
    feed(sorted(hist.__dict__.keys()))
    for k in sorted(hist.__dict__.keys()):
        feed(hist.__dict__[k])

from opytimizer.optimizers.wca import WCA


def quantised(x):
    # many ties, so the stability of the sort matters
    return float(np.round(np.sum(x ** 2)))


def array_fit(x):
    return np.array([np.sum(x ** 2)])


def vector_fit(x):
    # sorting such keys is ambiguous and raises
    return np.array([np.sum(x ** 2), 1.0])


def run_case(seed, hyper, fn, n_agents, n_variables, n_iterations, lb, ub, store_best_only=False, hook_kind=None):
    feed(['case', seed, sorted(hyper.items()), fn.__name__, n_agents, n_variables, n_iterations, store_best_only, str(hook_kind)])
    trace = []
    opt = None
    space = None
    try:
        space = make_space(seed, n_agents, n_variables, n_iterations, lb, ub)
        for k, a in enumerate(space.agents):
            a.tag = k
        opt = WCA(hyperparams=dict(hyper))
        func = Function(pointer=traced(fn, trace))
        list_id = id(space.agents)
        ids = sorted(id(a) for a in space.agents)
        hook = None
        if hook_kind == 'record':
            def hook(o, s, f):
                trace.append(('hook', o.d_max, [a.tag for a in s.agents], [a.position.copy() for a in s.agents],
                              [a.fit for a in s.agents], rng_state()))
        elif hook_kind == 'mutate':
            def hook(o, s, f):
                trace.append(('hook', len(trace), [a.tag for a in s.agents]))
                s.agents[-1].position = s.agents[-1].position * 0.5
                s.n_iterations = s.n_iterations + 1
                np.random.uniform()
        elif hook_kind == 'dropfit':
            calls = [0]

            def hook(o, s, f):
                calls[0] += 1
                trace.append(('hook', calls[0]))
                if calls[0] == 3:
                    # evaluation restores the attribute, so the sort still works
                    del s.agents[0].fit
        hist = opt.run(space, func, store_best_only=store_best_only, pre_evaluation_hook=hook)
        feed_history(hist)
        feed(id(space.agents) == list_id)
        feed(sorted(id(a) for a in space.agents) == ids)
    except Exception as ex:  # noqa
        feed(['EXC', type(ex).__name__, str(ex)])
    if space is not None:
        feed([a.tag for a in space.agents])
        snapshot_space(space)
    if opt is not None:
        feed([opt.nsr, opt.d_max])
    feed(trace)
    feed(rng_state())


def update_case(seed, hyper, kind):
    feed(['update', seed, sorted(hyper.items()), kind])
    space = make_space(seed, 8, 3, 5, [-1, -2, -3], [1, 2, 3])
    opt = None
    try:
        opt = WCA(hyperparams=dict(hyper))
        func = Function(pointer=sphere)
        opt._evaluate(space, func)
        before_pos = [a.position for a in space.agents]
        flows = opt._flow_intensity(space.agents)
        feed(flows)
        if kind == 'zero_flows':
            flows = np.zeros(opt.nsr, dtype=int)
        elif kind == 'short_flows':
            flows = flows[:1]
        elif kind == 'big_flows':
            flows = flows + 5
        elif kind == 'list_flows':
            flows = flows.tolist()
        for _ in range(2):
            ret = opt._update(space.agents, space.best_agent, flows)
            feed(ret)
            snapshot_space(space)
        feed([a.position is b for a, b in zip(space.agents, before_pos)])
    except Exception as ex:  # noqa
        feed(['EXC', type(ex).__name__, str(ex)])
    snapshot_space(space)
    feed(rng_state())


for seed in (0, 1, 2, 31337):
    run_case(seed, {}, sphere, 6, 3, 6, [-5, -5, -5], [5, 5, 5])
    run_case(seed, {'nsr': 3, 'd_max': 0.5}, rastrigin, 7, 2, 5, [-1, 0], [1, 0.5], store_best_only=True)
    run_case(seed, {'nsr': 1, 'd_max': 0}, shifted, 3, 1, 4, [0], [1], hook_kind='record')
    run_case(seed, {'nsr': 4}, quantised, 10, 2, 6, [-2, -2], [2, 2], hook_kind='record')
    run_case(seed, {'d_max': 2}, negsum, 5, 2, 5, [-1, -1], [1, 1], hook_kind='mutate')
    run_case(seed, {}, nan_some, 6, 2, 4, [-1, -1], [1, 1], hook_kind='record')
    run_case(seed, {}, constant, 5, 2, 3, [0, 0], [1, 1], hook_kind='record')
    run_case(seed, {}, array_fit, 5, 2, 3, [-1, -1], [1, 1])
    run_case(seed, {}, vector_fit, 5, 2, 3, [-1, -1], [1, 1])
    run_case(seed, {'nsr': 2}, sphere, 2, 2, 3, [-1, -1], [1, 1])
    run_case(seed, {}, sphere, 5, 2, 4, [-1, -1], [1, 1], hook_kind='dropfit')
run_case(7, {'nsr': 5}, sphere, 3, 2, 3, [-1, -1], [1, 1])
run_case(7, {'nsr': 0}, sphere, 3, 2, 3, [-1, -1], [1, 1])
run_case(7, {'d_max': 'x'}, sphere, 3, 2, 3, [-1, -1], [1, 1])
for kind in ('plain', 'zero_flows', 'short_flows', 'big_flows', 'list_flows'):
    for seed in (3, 4):
        update_case(seed, {'nsr': 3}, kind)
        update_case(seed, {'nsr': 1}, kind)

print('items', _N[0])
print(_H.hexdigest())
