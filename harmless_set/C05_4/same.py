"""Digest of what the logging helpers build (handlers, formatter, level, output)."""
import hashlib
import io
import logging as pylog
import os
import sys
import tempfile
from logging.handlers import TimedRotatingFileHandler

os.chdir(tempfile.mkdtemp())  # keep opytimizer.log out of the worktree

import opytimizer.utils.logging as l  # noqa: E402

h = hashlib.sha256()


def feed(*items):
    for it in items:
        h.update(repr(it).encode())
        h.update(b'|')


feed(type(l.FORMATTER).__name__, l.FORMATTER._fmt, l.FORMATTER.datefmt,
     type(l.FORMATTER._style).__name__, l.LOG_FILE)

rec = pylog.LogRecord('some.name', pylog.WARNING, 'path.py', 12, 'message %s %d', ('x', 3), None)
rec.created = 86400.0 * 365
rec.msecs = 123.0
feed(l.FORMATTER.format(rec))

ch = l.get_console_handler()
feed(type(ch) is pylog.StreamHandler, ch.stream is sys.stdout, ch.formatter is l.FORMATTER, ch.level)
feed(l.get_console_handler() is not ch)

fh = l.get_file_handler()
feed(type(fh) is TimedRotatingFileHandler, fh.when, fh.interval, fh.backupCount, fh.utc,
     os.path.basename(fh.baseFilename), fh.baseFilename == os.path.abspath(l.LOG_FILE),
     fh.formatter is l.FORMATTER, fh.level, fh.mode, fh.encoding, fh.delay, fh.atTime)
fh.close()

for name in ('harmless.one', 'harmless.two', ''):
    try:
        lg = l.get_logger(name)
    except BaseException as e:  # noqa
        feed(name, 'EXC', type(e).__name__, str(e))
        continue
    feed(name, lg.name, lg.level, lg.propagate, lg.disabled, len(lg.handlers),
         [type(x).__name__ for x in lg.handlers],
         [x.formatter is l.FORMATTER for x in lg.handlers],
         [x.level for x in lg.handlers], lg is pylog.getLogger(name))
    # a second call adds a second pair of handlers
    lg2 = l.get_logger(name)
    feed(lg2 is lg, len(lg.handlers), [type(x).__name__ for x in lg.handlers])

for bad in (None, 3, b'x'):
    try:
        l.get_logger(bad)
        feed('ok')
    except BaseException as e:  # noqa
        feed('EXC', type(e).__name__, str(e))

# What is actually written to the console and to the file (time stamps removed)
lg = pylog.getLogger('harmless.one')
buf = io.StringIO()
for x in lg.handlers:
    if type(x) is pylog.StreamHandler:
        x.setStream(buf)
lg.debug('dbg %d', 1)
lg.info('inf')
lg.warning('wrn')
lines = [ln.split(' - ', 1)[1] for ln in buf.getvalue().splitlines()]
feed(lines)
for x in lg.handlers:
    x.flush()
with open(l.LOG_FILE, encoding='utf-8', errors='replace') as f:
    flines = [ln.rstrip('\n').split(' - ', 1)[1] for ln in f if 'harmless.one' in ln]
feed(flines)

# the public names of the module that existed before are still there, with the same values
feed(sorted(n for n in ('FORMATTER', 'LOG_FILE', 'get_console_handler', 'get_file_handler',
                        'get_logger', 'logging', 'sys', 'TimedRotatingFileHandler') if hasattr(l, n)))

print(h.hexdigest())
