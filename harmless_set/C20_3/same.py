"""Digest of seeded ABC runs (scouts sent often: small n_trials) (per-agent histories, best agent, trace of objective calls, RNG state)."""
import copy
import hashlib
import logging

import numpy as np

logging.disable(logging.CRITICAL)

from opytimizer.core.function import Function
from opytimizer.optimizers.abc import ABC
from opytimizer.spaces.search import SearchSpace

H = hashlib.sha256()


def feed(x):
    """Feeds any nested structure of numbers into the digest, floats as float.hex()."""
    if isinstance(x, (list, tuple)):
        H.update(b'[')
        for v in x:
            feed(v)
        H.update(b']')
    elif isinstance(x, np.ndarray):
        H.update(str(x.shape).encode())
        feed(x.tolist())
    elif isinstance(x, (float, np.floating)):
        H.update(float(x).hex().encode() + b';')
    else:
        H.update(repr(x).encode() + b';')


def rng_state():
    s = np.random.get_state()
    return hashlib.sha256(s[1].tobytes()).hexdigest() + ':%d' % s[2]


def sphere(x):
    return np.sum(x ** 2)


def plateau(x):
    # many ties: acceptance must be strict
    return float(np.sum(np.floor(np.abs(x))))


def constant(x):
    return 1.0


def shifted(x):
    return float(np.sum((x - 0.3) ** 2) - 5.0)


def with_nan(x):
    v = float(np.sum(x))
    return float('nan') if v > 3.0 else v * v


def rastrigin(x):
    return float(np.sum(x ** 2 - 10 * np.cos(2 * np.pi * x) + 10))


def make_traced(obj, trace):
    # objectives wrapped in Function must take exactly one parameter
    def traced(x):
        trace.append(np.array(x, copy=True))
        return obj(x)
    return traced


# (no NaN objective: the onlooker phase of ABC does not terminate on NaN fitness, with or without the change)
OBJECTIVES = [sphere, plateau, constant, shifted, rastrigin]

CONFIGS = [
    # n_agents, n_variables, n_iterations, lb, ub, hyperparams
    (1, 1, 6, [0], [1], {'n_trials': 1}),
    (2, 2, 10, [1, 1], [10, 10], {'n_trials': 1}),
    (5, 3, 15, [-5, -5, -5], [5, 5, 5], {'n_trials': 2}),
    (5, 3, 15, [-5, -5, -5], [5, 5, 5], {}),
    (7, 2, 20, [-1, 0], [1, 0], {'n_trials': 1}),
    (10, 4, 12, [-10, -1, 0, 2], [10, 1, 0.5, 2], {'n_trials': 3}),
]

for seed in (0, 1, 7, 12345):
    for oi, obj in enumerate(OBJECTIVES):
        for ci, (na, nv, ni, lb, ub, hp) in enumerate(CONFIGS):
            np.random.seed(seed * 1000 + oi * 10 + ci)
            trace = []
            traced = make_traced(obj, trace)
            space = SearchSpace(n_agents=na, n_variables=nv, n_iterations=ni,
                                lower_bound=lb, upper_bound=ub)
            opt = ABC(hyperparams=dict(hp))
            hist = opt.run(space, Function(pointer=traced))
            feed(hist.agents)
            feed(hist.best_agent)
            feed(trace)
            feed([(a.position, a.fit) for a in space.agents])
            H.update(rng_state().encode())

# the update pipeline by hand, so that the trial counters are visible
for seed in (3, 4):
    for obj in (plateau, sphere, constant):
        np.random.seed(seed)
        space = SearchSpace(n_agents=6, n_variables=2, n_iterations=1,
                            lower_bound=[-3, -3], upper_bound=[3, 3])
        opt = ABC(hyperparams={'n_trials': 1})
        trace = []
        fn = Function(pointer=make_traced(obj, trace))
        opt._evaluate(space, fn)
        trials = np.zeros(space.n_agents)
        for _ in range(25):
            opt._update(space.agents, fn, trials)
            feed(trials)
            feed([(a.position, a.fit) for a in space.agents])
        feed(trace)
        H.update(rng_state().encode())

# _send_scout alone on hand-made counters: no scout, ties for the maximum (first index wins),
# maximum exactly at the limit (not sent), integer counters, a plain list of counters
CASES = [
    np.zeros(6),
    np.array([0., 3., 1., 3., 2., 0.]),
    np.array([5., 5., 5., 5., 5., 5.]),
    np.array([2., 2., 2., 2., 2., 2.]),
    np.array([0., 0., 0., 0., 0., 9.]),
    np.array([7., 0., 0., 0., 0., 0.]),
    np.array([0, 4, 4, 1, 0, 0]),
    [0, 1, 6, 6, 2, 0],
    np.array([0., 2.5, 2., 1., 0., 0.]),
]
for seed in (11, 12, 13):
    for obj in (sphere, plateau):
        for case in CASES:
            np.random.seed(seed)
            space = SearchSpace(n_agents=6, n_variables=3, n_iterations=1,
                                lower_bound=[-3, -3, 0], upper_bound=[3, 3, 0.5])
            opt = ABC(hyperparams={'n_trials': 2})
            trace = []
            fn = Function(pointer=make_traced(obj, trace))
            opt._evaluate(space, fn)
            trials = copy.deepcopy(case)
            for _ in range(4):
                out = opt._send_scout(space.agents, fn, trials)
                feed(repr(out))
                feed(repr(type(trials)))
                feed(list(trials))
                feed([(a.position, a.fit) for a in space.agents])
            feed(trace)
            H.update(rng_state().encode())

# an empty array of counters is rejected with the same exception type
try:
    ABC()._send_scout([], Function(pointer=sphere), np.zeros(0))
    feed('no exception')
except Exception as ex:
    feed(type(ex).__name__)

print(H.hexdigest())
