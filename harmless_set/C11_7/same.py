"""Exercises Node.pre_order / Node.post_order (and their users) and prints a digest.

Run as: cd /tmp/harmless2/walks && PYTHONPATH=/tmp/harmless2/walks /venv/bin/python harmlessX/same.py
"""

import hashlib
import logging
import random

import numpy as np

logging.disable(logging.CRITICAL)

from opytimizer.core.function import Function  # noqa: E402
from opytimizer.core.node import Node  # noqa: E402
from opytimizer.optimizers.gp import GP  # noqa: E402
from opytimizer.spaces.tree import TreeSpace  # noqa: E402

H = hashlib.sha256()


def feed(*items):
    for it in items:
        H.update(repr(it).encode())
        H.update(b'|')


def term(i):
    return Node(i, 'TERMINAL', np.array([[float(i)]]))


def func(name):
    return Node(name, 'FUNCTION')


def link(parent, child, left):
    if left:
        parent.left = child
    else:
        parent.right = child
    child.parent = parent
    child.flag = left


def random_tree(rng, depth, registry):
    """Random binary tree with optional one-child function nodes."""
    if depth == 0 or rng.random() < 0.2:
        n = term(len(registry))
        registry.append(n)
        return n
    n = func(rng.choice(['SUM', 'SUB', 'MUL', 'DIV', 'EXP', 'SIN']))
    registry.append(n)
    shape = rng.choice(['both', 'both', 'left', 'right'])
    if shape in ('both', 'left'):
        link(n, random_tree(rng, depth - 1, registry), True)
    if shape in ('both', 'right'):
        link(n, random_tree(rng, depth - 1, registry), False)
    return n


def chain(length, left, registry):
    root = func('SUM')
    registry.append(root)
    cur = root
    for _ in range(length):
        nxt = func('SUM')
        registry.append(nxt)
        link(cur, nxt, left)
        cur = nxt
    return root


def walk(label, root, registry):
    """Records both traversals of `root` by registry index, with identity checks."""
    index = {id(n): i for i, n in enumerate(registry)}
    snapshot = [(id(n.left), id(n.right), id(n.parent), n.flag) for n in registry]
    for prop in ('pre_order', 'post_order'):
        try:
            first = getattr(root, prop)
            second = getattr(root, prop)
            feed(label, prop, [index.get(id(n), -1) for n in first],
                 [repr(n) for n in first],
                 type(first).__name__, first is second,
                 all(a is b for a, b in zip(first, second)), len(first) == len(second))
            # the returned list is fresh: mutating it must not affect a later call
            first.clear()
            third = getattr(root, prop)
            feed([index.get(id(n), -1) for n in third])
        except Exception as ex:  # noqa: BLE001
            feed(label, prop, 'EXC', type(ex).__name__, str(ex))
    # the traversals must not have modified the tree
    feed(snapshot == [(id(n.left), id(n.right), id(n.parent), n.flag) for n in registry])
    # every sub-node as a traversal root
    for n in registry:
        try:
            feed([index.get(id(m), -1) for m in n.pre_order],
                 [index.get(id(m), -1) for m in n.post_order])
        except Exception as ex:  # noqa: BLE001
            feed('EXC', type(ex).__name__, str(ex))
    # find_node is the library's user of pre_order
    for pos in range(-2, len(registry) + 2):
        try:
            p, flag = root.find_node(pos)
            feed(pos, index.get(id(p), -1) if p is not None else None, flag)
        except Exception as ex:  # noqa: BLE001
            feed(pos, 'EXC', type(ex).__name__, str(ex))


# --- hand-made edge cases -------------------------------------------------
reg = [term(0)]
walk('single-terminal', reg[0], reg)

reg = [func('SUM')]
walk('single-function', reg[0], reg)

for length in (1, 2, 7):
    for left in (True, False):
        reg = []
        root = chain(length, left, reg)
        walk(('chain', length, left), root, reg)

# full tree of depth 3
reg = []


def full(d):
    if d == 0:
        n = term(len(reg))
        reg.append(n)
        return n
    n = func('MUL')
    reg.append(n)
    link(n, full(d - 1), True)
    link(n, full(d - 1), False)
    return n


root = full(3)
walk('full-3', root, reg)

# shared child (same object as left and right child)
reg = [func('SUM'), term(1)]
reg[0].left = reg[1]
reg[0].right = reg[1]
walk('shared-child', reg[0], reg)

# shared grand-child reachable through two parents
reg = [func('SUM'), func('EXP'), func('SIN'), term(3)]
link(reg[0], reg[1], True)
link(reg[0], reg[2], False)
reg[1].left = reg[3]
reg[2].right = reg[3]
walk('shared-grandchild', reg[0], reg)

# a non-Node smuggled in as a child (bypassing the setter): same exception either way
for attr in ('_left', '_right'):
    for bogus in (5, 'x', 0, ''):
        reg = [func('SUM'), term(1)]
        link(reg[0], reg[1], attr != '_left')
        setattr(reg[0], attr, bogus)
        walk(('bogus', attr, bogus), reg[0], reg)

# a subclass whose child links are falsy-but-not-None objects cannot exist (setter only
# type-checks truthy values), but a Node subclass with __bool__/__len__ can
class EmptyNode(Node):
    def __bool__(self):
        return False

    def __len__(self):
        return 0


reg = [EmptyNode('SUM', 'FUNCTION'), EmptyNode('EXP', 'FUNCTION'),
       EmptyNode(2, 'TERMINAL', np.array([[2.0]])), EmptyNode(3, 'TERMINAL', np.array([[3.0]]))]
link(reg[0], reg[1], True)
link(reg[0], reg[2], False)
link(reg[1], reg[3], True)
walk('falsy-nodes', reg[0], reg)

# --- seeded random shapes -------------------------------------------------
for seed in range(40):
    rng = random.Random(seed)
    reg = []
    root = random_tree(rng, rng.randint(0, 6), reg)
    walk(('random', seed), root, reg)

# --- trees grown by the library, and whole seeded GP runs ------------------


def sphere(x):
    return np.sum(x ** 2)


for seed, funcs, (dmin, dmax) in [(0, ['SUM', 'SUB', 'MUL', 'DIV'], (1, 3)),
                                  (1, ['EXP', 'LOG', 'SQRT', 'ABS', 'COS', 'SIN'], (2, 4)),
                                  (2, ['SUM', 'EXP', 'MUL', 'SIN'], (1, 5)),
                                  (3, ['SUM'], (1, 1))]:
    np.random.seed(seed)
    space = TreeSpace(n_trees=8, n_terminals=3, n_variables=2, n_iterations=12,
                      min_depth=dmin, max_depth=dmax, functions=funcs,
                      lower_bound=[-5, -5], upper_bound=[5, 5])
    for t in space.trees:
        pre, post = t.pre_order, t.post_order
        feed([repr(n) for n in pre], [repr(n) for n in post],
             sorted(map(id, pre)) == sorted(map(id, post)), pre[0] is t, post[-1] is t)
    history = GP(hyperparams={'p_reproduction': 0.3, 'p_mutation': 0.4,
                              'p_crossover': 0.4, 'prunning_ratio': 0.0}).run(space, Function(sphere))
    for t in space.trees + [space.best_tree]:
        feed([repr(n) for n in t.pre_order], [repr(n) for n in t.post_order],
             [v.hex() for v in np.asarray(t.position, dtype=float).ravel()])
    for a in space.agents + [space.best_agent]:
        feed([v.hex() for v in np.asarray(a.position, dtype=float).ravel()], float(a.fit).hex())
    for pos, fit in history.best_agent:
        feed([float(v).hex() for v in np.asarray(pos, dtype=float).ravel()], float(fit).hex())
    # random stream consumed identically
    feed(np.random.uniform().hex())

print(H.hexdigest())
