"""Behaviour digest for the GP genetic operators (opytimizer/optimizers/gp.py).

Exercises GP._prune_nodes, GP._mutate, GP._cross, GP._mutation, GP._crossover and
seeded GP.run() on many seeded inputs (including edge cases), recording results,
exception types, object identities/aliasing and the state of the global NumPy random
stream after every call. The LAST printed line is a sha256 digest of everything.

Run as: cd /tmp/harmless3/gpops && PYTHONPATH=/tmp/harmless3/gpops /venv/bin/python harmlessK/same.py
"""

import copy
import hashlib
import logging
import warnings

import numpy as np

warnings.filterwarnings('ignore')
logging.disable(logging.CRITICAL)

from opytimizer.core import function  # noqa: E402
from opytimizer.core.node import Node  # noqa: E402
from opytimizer.optimizers import gp  # noqa: E402
from opytimizer.spaces import tree  # noqa: E402

LINES = []


def emit(*parts):
    LINES.append(' '.join(str(p) for p in parts))


def fhex(x):
    """Exact textual form of a number / array (bit-exact for floats)."""

    if x is None:
        return 'None'
    a = np.asarray(x)
    if a.dtype.kind == 'f':
        return '%s%s[%s]' % (a.dtype, a.shape, ','.join(float(v).hex() for v in a.ravel()))
    return '%s%s[%s]' % (a.dtype, a.shape, ','.join(repr(v) for v in a.ravel().tolist()))


def rng_state():
    """Short digest of the global NumPy random stream state."""

    s = np.random.get_state()
    h = hashlib.sha256()
    h.update(s[1].tobytes())
    h.update(repr((s[0], s[2], s[3], float(s[4]).hex())).encode())
    return h.hexdigest()[:16]


def nodes_of(root):
    """Own pre-order traversal (does not rely on library code)."""

    out, stack, seen = [], [root], set()
    while stack:
        n = stack.pop()
        if id(n) in seen:
            out.append(('CYCLE', n))
            continue
        seen.add(id(n))
        out.append(('N', n))
        if n.right is not None:
            stack.append(n.right)
        if n.left is not None:
            stack.append(n.left)
    return out


def ser_tree(root, space=None):
    """Serializes a tree: structure, flags, values, parent links and terminal aliasing."""

    if root is None:
        return 'NONE'
    if not isinstance(root, Node):
        return 'NOT-A-NODE:%s' % type(root).__name__
    items = nodes_of(root)
    index = {id(n): i for i, (_, n) in enumerate(items)}
    parts = []
    for kind, n in items:
        if kind == 'CYCLE':
            parts.append('CYCLE@%d' % index[id(n)])
            continue
        alias = -1
        if space is not None and n.value is not None:
            for k, t in enumerate(space.terminals):
                if n.value is t.position:
                    alias = k
        par = 'root' if n.parent is None else index.get(id(n.parent), 'foreign')
        parts.append('(%s|%s|%s|%s|a%s|p%s|l%s|r%s)' % (
            n.type, n.name, n.flag, fhex(n.value), alias, par,
            'x' if n.left is None else index[id(n.left)],
            'x' if n.right is None else index[id(n.right)]))
    return ''.join(parts)


def ids_of(root):
    if not isinstance(root, Node):
        return set()
    return set(id(n) for _, n in nodes_of(root))


def ser_space(space):
    """Serializes the whole tree space, including sharing of nodes between trees."""

    out = []
    for i, t in enumerate(space.trees):
        out.append('T%d:%s' % (i, ser_tree(t, space)))
    idsets = [ids_of(t) for t in space.trees]
    shared = []
    for i in range(len(idsets)):
        for j in range(i + 1, len(idsets)):
            if idsets[i] & idsets[j]:
                shared.append('%d~%d:%d' % (i, j, len(idsets[i] & idsets[j])))
    out.append('shared=' + ','.join(shared))
    out.append('best=' + ser_tree(space.best_tree, space))
    out.append('bestshared=' + ','.join(str(i) for i, s in enumerate(idsets)
                                        if s & ids_of(space.best_tree)))
    for i, a in enumerate(space.agents):
        out.append('A%d:%s:%s' % (i, fhex(a.position), fhex(a.fit)))
    out.append('BA:%s:%s' % (fhex(space.best_agent.position), fhex(space.best_agent.fit)))
    for i, t in enumerate(space.terminals):
        out.append('Z%d:%s' % (i, fhex(t.position)))
    return '\n'.join(out)


def attempt(label, fn):
    """Runs fn, records the result or the exception type and the random stream state."""

    try:
        res = fn()
        emit(label, 'OK', res, 'rng', rng_state())
    except BaseException as ex:  # noqa
        emit(label, 'EXC', type(ex).__module__ + '.' + type(ex).__name__, 'rng', rng_state())


FUNCTION_SETS = [
    ['SUM', 'SUB', 'MUL', 'DIV'],
    ['EXP', 'LOG', 'SQRT', 'ABS', 'COS', 'SIN'],
    ['SUM', 'EXP', 'MUL', 'SIN'],
    ['SUM'],
]


def make_space(seed, n_trees, fset, min_depth, max_depth, n_terminals=2, n_variables=1, n_iterations=3):
    np.random.seed(seed)
    return tree.TreeSpace(n_trees=n_trees, n_terminals=n_terminals, n_variables=n_variables,
                          n_iterations=n_iterations, min_depth=min_depth, max_depth=max_depth,
                          functions=fset, lower_bound=[0] * n_variables, upper_bound=[10] * n_variables)


def sphere(x):
    return np.sum(x ** 2)


# --------------------------------------------------------------------------------------
# 1. _prune_nodes
# --------------------------------------------------------------------------------------

def section_prune():
    emit('== prune')
    for ratio in [0, 0.0, 0.1, 0.25, 1 / 3, 0.5, 0.75, 0.9, 0.99, 1, 1.0]:
        opt = gp.GP(hyperparams={'prunning_ratio': ratio})
        for n in list(range(0, 41)) + [100, 1000, 10 ** 6, -1, -5, True, False]:
            attempt('prune r=%r n=%r' % (ratio, n),
                    lambda: (lambda v: '%s:%r' % (type(v).__name__, v))(opt._prune_nodes(n)))
        for n in [2.0, 2.5, 2.9999999999999996, 3.0, 3.0000000000000004, 4.5, 1e300,
                  float('nan'), float('inf'), float('-inf'), -0.0,
                  np.int64(7), np.int32(3), np.float64(3.0), np.float64('nan'), np.float32(2.5),
                  np.array(5), np.array([5]), np.array([5, 6]), '5', None, [5], 3 + 0j]:
            attempt('prune r=%r n=%s' % (ratio, fhex(n) if isinstance(n, (float, np.generic, np.ndarray)) else repr(n)),
                    lambda: (lambda v: '%s:%r' % (type(v).__name__, v))(opt._prune_nodes(n)))
    # values just around the threshold `2`/`3`
    opt = gp.GP()
    for ratio in np.linspace(0, 1, 41):
        opt.prunning_ratio = float(ratio)
        for n in [2, 3, 4, 5, 6, 7, 9, 13, 31]:
            attempt('prune-grid r=%s n=%d' % (float(ratio).hex(), n),
                    lambda: (lambda v: '%s:%r' % (type(v).__name__, v))(opt._prune_nodes(n)))


# --------------------------------------------------------------------------------------
# 2. _mutate
# --------------------------------------------------------------------------------------

def section_mutate():
    emit('== mutate')
    opt = gp.GP()
    case = 0
    for fi, fset in enumerate(FUNCTION_SETS):
        for (mind, maxd) in [(1, 1), (1, 2), (1, 3), (2, 4), (1, 5)]:
            space = make_space(100 + 7 * fi + maxd, 6, fset, mind, maxd)
            for ti, t in enumerate(space.trees):
                n_nodes = t.n_nodes
                before = ser_tree(t, space)
                for max_nodes in sorted(set([2, 3, n_nodes, n_nodes + 3, max(2, n_nodes // 2)])):
                    for seed in (1, 2, 3):
                        case += 1
                        np.random.seed(1000 * case + seed)

                        def go():
                            res = opt._mutate(space, t, max_nodes)
                            return '%s same_obj=%s shares=%d input_intact=%s' % (
                                ser_tree(res, space), res is t, len(ids_of(res) & ids_of(t)),
                                ser_tree(t, space) == before)
                        attempt('mutate f%d d%d-%d t%d n=%d max=%d s=%d' % (fi, mind, maxd, ti, n_nodes, max_nodes, seed), go)

    # Edge cases: odd `max_nodes`, bad arguments
    space = make_space(77, 4, FUNCTION_SETS[0], 1, 4)
    t = space.trees[0]
    for max_nodes in [2, 2.0, 1, 0, -3, 2.5, 1e9, float('nan'), float('inf'), None, 'a', np.int64(4)]:
        np.random.seed(4242)
        attempt('mutate-edge max=%r' % (max_nodes,),
                lambda: ser_tree(opt._mutate(space, t, max_nodes), space))
    for bad in [None, 3, 'tree']:
        np.random.seed(4343)
        attempt('mutate-badtree %r' % (bad,), lambda: ser_tree(opt._mutate(space, bad, 3), space))
    np.random.seed(4444)
    attempt('mutate-badspace', lambda: ser_tree(opt._mutate(None, t, 3), None))
    np.random.seed(4445)
    attempt('mutate-badspace-terminal', lambda: ser_tree(
        opt._mutate(None, Node(name=0, type='TERMINAL', value=np.zeros((1, 1))), 3), None))

    # Hand-made trees: root function with a function child (mutation point on a function
    # whose parent is the root -> find_node gives (None, False) -> whole tree is regrown)
    space = make_space(78, 2, ['SUM', 'EXP'], 1, 3)
    v = lambda c: np.full((1, 1), float(c))  # noqa: E731
    root = Node('SUM', 'FUNCTION')
    l1 = Node('EXP', 'FUNCTION', parent=root)
    r1 = Node(1, 'TERMINAL', value=v(1), parent=root)
    r1.flag = False
    root.left, root.right = l1, r1
    l2 = Node(0, 'TERMINAL', value=v(2), parent=l1)
    l1.left = l2
    for point_max in [2, 3, 4, 5, 8]:
        for seed in range(6):
            np.random.seed(5000 + 10 * point_max + seed)
            attempt('mutate-hand max=%d s=%d' % (point_max, seed),
                    lambda: ser_tree(opt._mutate(space, root, point_max), space) + ' intact=' + ser_tree(root, space))


# --------------------------------------------------------------------------------------
# 3. _cross
# --------------------------------------------------------------------------------------

def section_cross():
    emit('== cross')
    opt = gp.GP()
    case = 0
    for fi, fset in enumerate(FUNCTION_SETS):
        for (mind, maxd) in [(1, 1), (1, 2), (1, 3), (2, 4), (1, 5)]:
            space = make_space(200 + 11 * fi + maxd, 5, fset, mind, maxd)
            trees = space.trees
            for i in range(len(trees)):
                for j in range(len(trees)):
                    fa, mo = trees[i], trees[j]
                    nf, nm = fa.n_nodes, mo.n_nodes
                    bf, bm = ser_tree(fa, space), ser_tree(mo, space)
                    for (mf, mm) in sorted(set([(2, 2), (nf, nm), (max(2, nf // 2), nm + 2), (nf + 4, 2)])):
                        case += 1
                        np.random.seed(31 * case + 5)

                        def go():
                            a, b = opt._cross(fa, mo, mf, mm)
                            return '%s || %s same=%s,%s ab_share=%d in_share=%d intact=%s' % (
                                ser_tree(a, space), ser_tree(b, space), a is fa, b is mo,
                                len(ids_of(a) & ids_of(b)),
                                len((ids_of(a) | ids_of(b)) & (ids_of(fa) | ids_of(mo))),
                                (ser_tree(fa, space) == bf) and (ser_tree(mo, space) == bm))
                        attempt('cross f%d d%d-%d %d x %d n=%d,%d max=%d,%d' % (fi, mind, maxd, i, j, nf, nm, mf, mm), go)

    # Edge cases: bad maxima / bad parents (exceptions after a given number of draws)
    space = make_space(88, 3, FUNCTION_SETS[0], 2, 4)
    fa, mo = space.trees[0], space.trees[1]
    nan, inf = float('nan'), float('inf')
    for (mf, mm) in [(2, nan), (nan, 2), (nan, nan), (inf, 3), (3, inf), (None, 3), (3, None), ('a', 3), (3, 'a'),
                     (1, 1), (0, 0), (-4, 2.5), (1e9, 1e9), (np.int64(3), np.float64(3.5))]:
        np.random.seed(6001)
        attempt('cross-edge max=%r,%r' % (mf, mm),
                lambda: ' || '.join(ser_tree(x, space) for x in opt._cross(fa, mo, mf, mm)))
    for (a, b) in [(None, mo), (fa, None), (None, None), (3, mo), (fa, 'm')]:
        np.random.seed(6002)
        attempt('cross-badparent %s,%s' % (type(a).__name__, type(b).__name__),
                lambda: ' || '.join(ser_tree(x, space) for x in opt._cross(a, b, 3, 3)))

    # A return value must be a 2-tuple
    np.random.seed(6003)
    res = opt._cross(fa, mo, 3, 3)
    emit('cross-type', type(res).__name__, len(res))


# --------------------------------------------------------------------------------------
# 4. _mutation and _crossover on whole spaces, 5. full runs
# --------------------------------------------------------------------------------------

def section_population():
    emit('== population')
    fn = function.Function(pointer=sphere)
    case = 0
    for fi, fset in enumerate(FUNCTION_SETS):
        for (mind, maxd) in [(1, 1), (1, 2), (2, 2), (1, 4), (2, 5)]:
            for (n_trees, p, ratio) in [(1, 1.0, 0), (2, 0.5, 0), (5, 0.0, 0.5), (5, 0.1, 0), (7, 0.3, 0.25),
                                        (8, 0.5, 0.9), (10, 1.0, 0.0), (10, 1.0, 1.0), (9, 0.99, 0.5)]:
                for op in ('_mutation', '_crossover'):
                    case += 1
                    space = make_space(300 + case, n_trees, fset, mind, maxd, n_terminals=3, n_variables=2)
                    opt = gp.GP(hyperparams={'p_mutation': p, 'p_crossover': p, 'prunning_ratio': ratio})
                    opt._evaluate(space, fn)
                    trees_list = space.trees
                    old = list(space.trees)
                    np.random.seed(9000 + case)

                    def go():
                        ret = getattr(opt, op)(space)
                        kept = ''.join('1' if a is b else '0' for a, b in zip(old, space.trees))
                        return 'ret=%r list_same=%s kept=%s\n%s' % (ret, space.trees is trees_list, kept, ser_space(space))
                    attempt('%s f%d d%d-%d n=%d p=%r r=%r' % (op, fi, mind, maxd, n_trees, p, ratio), go)
                    # a second application on the already modified space
                    attempt('%s again' % op, go)

    # all agents share the same fitness (tournament picks index 0 only -> father is mother)
    for op in ('_mutation', '_crossover'):
        space = make_space(401, 6, FUNCTION_SETS[0], 1, 4)
        opt = gp.GP(hyperparams={'p_mutation': 0.7, 'p_crossover': 0.7, 'prunning_ratio': 0.2})
        for a in space.agents:
            a.fit = 1.0
        np.random.seed(402)
        attempt('%s equal-fitness' % op, lambda: (getattr(opt, op)(space), ser_space(space))[1])

    # NaN fitness -> tournament selection fails
    for op in ('_mutation', '_crossover'):
        space = make_space(403, 6, FUNCTION_SETS[0], 1, 4)
        opt = gp.GP(hyperparams={'p_mutation': 0.7, 'p_crossover': 0.7})
        for a in space.agents:
            a.fit = float('nan')
        np.random.seed(404)
        attempt('%s nan-fitness' % op, lambda: (getattr(opt, op)(space), ser_space(space))[1])

    # bad space
    for op in ('_mutation', '_crossover'):
        opt = gp.GP()
        np.random.seed(405)
        attempt('%s none-space' % op, lambda: getattr(opt, op)(None))


def section_runs():
    emit('== runs')
    fn = function.Function(pointer=sphere)
    configs = [
        (11, 10, FUNCTION_SETS[0], 1, 2, {}),
        (12, 10, FUNCTION_SETS[1], 2, 3, {}),
        (13, 12, FUNCTION_SETS[2], 1, 4, {'p_reproduction': 0.3, 'p_mutation': 0.4, 'p_crossover': 0.5, 'prunning_ratio': 0.3}),
        (14, 7, FUNCTION_SETS[0], 1, 5, {'p_reproduction': 0.0, 'p_mutation': 1.0, 'p_crossover': 1.0, 'prunning_ratio': 0.0}),
        (15, 5, FUNCTION_SETS[3], 1, 3, {'p_reproduction': 1.0, 'p_mutation': 0.5, 'p_crossover': 0.3, 'prunning_ratio': 1.0}),
        (16, 3, FUNCTION_SETS[2], 3, 3, {'p_mutation': 1.0, 'p_crossover': 1.0}),
    ]
    for (seed, n_trees, fset, mind, maxd, hyper) in configs:
        space = make_space(seed, n_trees, fset, mind, maxd, n_terminals=3, n_variables=2, n_iterations=15)
        opt = gp.GP(hyperparams=hyper)

        def go():
            hist = opt.run(space, fn)
            out = [ser_space(space)]
            for it, (ags, best) in enumerate(zip(hist.agents, hist.best_agent)):
                out.append('it%d %s | %s' % (it, ';'.join(fhex(p) + ':' + fhex(f) for p, f in ags),
                                             fhex(best[0]) + ':' + fhex(best[1])))
            for it, bt in enumerate(hist.best_tree):
                out.append('bt%d %s' % (it, ser_tree(bt, space) if isinstance(bt, Node) else repr(bt)))
            return '\n'.join(out)
        attempt('run seed=%d' % seed, go)


def main():
    np.random.seed(0)
    section_prune()
    section_mutate()
    section_cross()
    section_population()
    section_runs()

    h = hashlib.sha256()
    n_exc = 0
    for line in LINES:
        h.update(line.encode('utf-8', 'backslashreplace'))
        h.update(b'\n')
        if ' EXC ' in line:
            n_exc += 1
    print('records: %d, exceptions recorded: %d' % (len(LINES), n_exc))
    print(h.hexdigest())


if __name__ == '__main__':
    main()
