"""Behavioural fingerprint of opytimizer.spaces.tree.TreeSpace.

Run as:  cd <worktree> && PYTHONPATH=<worktree> /venv/bin/python harmlessX/same.py
The LAST printed line is a sha256 digest over everything observed: tree shapes,
node names / types / flags, terminal values as float.hex(), aliasing between node
values and the terminals' position arrays, parent pointers, agents and terminals
after initialisation, the state of the global random stream after each scenario,
the messages logged by the module, and the types of the exceptions raised.
"""
import hashlib
import logging
import sys

import numpy as np

import opytimizer  # noqa: F401
from opytimizer.core.node import Node
from opytimizer.utils.constants import N_ARGS_FUNCTION as N_ARGS
from opytimizer.spaces import tree as tree_module
from opytimizer.spaces.tree import TreeSpace

OUT = []


def emit(*items):
    OUT.append(' '.join(str(i) for i in items))


class Capture(logging.Handler):
    def emit(self, record):
        OUT.append('LOG %s %s %s' % (record.name, record.levelname, record.getMessage()))


# Silence console output of every opytimizer logger, capture the relevant ones.
for name, lg in list(logging.root.manager.loggerDict.items()):
    if isinstance(lg, logging.Logger) and name.startswith('opytimizer'):
        for h in list(lg.handlers):
            lg.removeHandler(h)
            h.close()
capture = Capture()
logging.getLogger('opytimizer.spaces.tree').addHandler(capture)
logging.getLogger('opytimizer.utils.exception').addHandler(capture)


def hx(x):
    return float(x).hex()


def arr(a):
    a = np.asarray(a)
    return '%s%s[%s]' % (a.dtype, a.shape, ','.join(hx(v) for v in a.ravel()))


def rng_mark():
    """Fingerprint of the position in the global random stream (does not advance it)."""
    st = np.random.get_state()
    h = hashlib.sha256(st[1].tobytes()).hexdigest()[:16]
    return '%s:%d:%d:%s' % (h, st[2], st[3], hx(st[4]))


def alias_of(space, value):
    """Which terminal's position array `value` IS (identity), -1 if none, -2 if None."""
    if value is None:
        return -2
    for k, t in enumerate(space.terminals):
        if t.position is value:
            return k
    return -1


def dump_node(space, node, path, parent):
    if node is None:
        emit(path, 'NONE')
        return
    emit(path, repr(node), type(node.name).__name__, node.name, node.type, node.flag,
         'parent_ok' if node.parent is parent else 'parent_BAD',
         'alias', alias_of(space, node.value),
         'val', '-' if node.value is None else arr(node.value))
    if node.type == 'FUNCTION':
        dump_node(space, node.left, path + 'L', node)
        dump_node(space, node.right, path + 'R', node)
    else:
        emit(path, 'leaf-children', node.left is None, node.right is None)


def dump_space(space, tag):
    emit('== space', tag, space.n_trees, space.n_terminals, space.n_variables, space.n_dimensions,
         space.min_depth, space.max_depth, space.functions, arr(space.lb), arr(space.ub), space.built)
    emit('agents', len(space.agents), space.n_agents)
    for i, a in enumerate(space.agents):
        emit('agent', i, arr(a.position), arr(a.lb), arr(a.ub), hx(a.fit))
    emit('best_agent', arr(space.best_agent.position), arr(space.best_agent.lb), arr(space.best_agent.ub))
    emit('terminals', len(space.terminals))
    for i, t in enumerate(space.terminals):
        emit('terminal', i, arr(t.position), arr(t.lb), arr(t.ub), hx(t.fit))
    emit('trees', type(space.trees).__name__, len(space.trees))
    for i, t in enumerate(space.trees):
        dump_node(space, t, 'T%d:' % i, None)
        emit('str', str(t).replace('\n', '|'))
    emit('best_is_first', space.best_tree is space.trees[0])
    dump_node(space, space.best_tree, 'B:', None)
    emit('distinct_roots', len(set(id(t) for t in space.trees)))


def attempt(tag, fn):
    try:
        res = fn()
        emit('OK', tag)
        return res
    except BaseException as ex:  # noqa
        emit('EXC', tag, type(ex).__module__, type(ex).__name__, isinstance(ex, Exception))
        return None


ALL_F = ['SUM', 'SUB', 'MUL', 'DIV', 'EXP', 'SQRT', 'LOG', 'ABS', 'SIN', 'COS']

CONFIGS = [
    dict(),
    dict(n_trees=3, n_terminals=2, n_variables=2, min_depth=1, max_depth=4, functions=['SUM', 'MUL'],
         lower_bound=[-1.5, 0.25], upper_bound=[2.5, 0.75]),
    dict(n_trees=5, n_terminals=3, n_variables=1, min_depth=2, max_depth=6, functions=list(ALL_F),
         lower_bound=[-10], upper_bound=[10]),
    dict(n_trees=4, n_terminals=1, n_variables=3, min_depth=1, max_depth=5, functions=['EXP', 'SIN', 'ABS'],
         lower_bound=[0, -1, 1e-300], upper_bound=[1, 1, 1e300]),
    dict(n_trees=2, n_terminals=4, n_variables=2, min_depth=3, max_depth=3, functions=['SUM'],
         lower_bound=[0, 0], upper_bound=[0, 5]),
    dict(n_trees=6, n_terminals=1, n_variables=1, min_depth=1, max_depth=7,
         functions=['SUM', 'SUB', 'MUL', 'DIV', 'SUM', 'SUB', 'MUL', 'DIV'],
         lower_bound=[-5], upper_bound=[5]),
    dict(n_trees=3, n_terminals=5, n_variables=2, min_depth=1, max_depth=2, functions=[],
         lower_bound=[1, 2], upper_bound=[3, 4]),
    dict(n_trees=2, n_terminals=2, n_variables=2, min_depth=1, max_depth=3, functions=['DIV', 'LOG'],
         lower_bound=[5, 5], upper_bound=[-5, 5]),
    dict(n_trees=True, n_terminals=True, n_variables=1, min_depth=True, max_depth=2, functions=['COS', 'SUB']),
]

for seed in (0, 1, 7, 42, 2024):
    for k, cfg in enumerate(CONFIGS):
        np.random.seed(seed + 1000 * k)
        tag = 'seed%d/cfg%d' % (seed, k)
        s = attempt('build ' + tag, lambda: TreeSpace(**cfg))
        emit('rng', rng_mark())
        if s is None:
            continue
        dump_space(s, tag)

        # Direct calls of the individual methods on the built space
        old_terms = list(s.terminals)
        old_pos = [t.position for t in s.terminals]
        attempt('init_terminals ' + tag, s._initialize_terminals)
        emit('rng', rng_mark())
        emit('terminals_same_objects', all(a is b for a, b in zip(old_terms, s.terminals)),
             all(a is b.position for a, b in zip(old_pos, s.terminals)))
        old_agents = list(s.agents)
        old_apos = [a.position for a in s.agents]
        attempt('init_agents ' + tag, s._initialize_agents)
        emit('rng', rng_mark())
        emit('agents_same_objects', all(a is b for a, b in zip(old_agents, s.agents)),
             all(a is b.position for a, b in zip(old_apos, s.agents)))
        for i, a in enumerate(s.agents):
            emit('agent2', i, arr(a.position), arr(a.lb), arr(a.ub))

        for (lo, hi) in ((1, 1), (2, 4), (1, 6), (5, 5), (3, 2)):
            if lo > hi:
                # Unbounded recursion: only run it where the branching process is clearly
                # sub-critical, so that the interpreter's recursion limit is never involved.
                offspring = sum(N_ARGS.get(f, 0) for f in s.functions) / (len(s.functions) + s.n_terminals)
                if offspring > 0.8:
                    emit('skip grow', lo, hi, tag)
                    continue
            n = attempt('grow %d %d %s' % (lo, hi, tag), lambda: s.grow(lo, hi))
            emit('rng', rng_mark())
            if n is not None:
                dump_node(s, n, 'G%d-%d:' % (lo, hi), None)
                emit('grow_type', type(n) is Node)
        res = attempt('create_trees ' + tag, s._create_trees)
        emit('rng', rng_mark())
        if res is not None:
            emit('create_trees_ret', type(res).__name__, len(res), type(res[0]).__name__, len(res[0]),
                 res[1] is res[0][0], res[0] is s.trees)
            for i, t in enumerate(res[0]):
                dump_node(s, t, 'C%d:' % i, None)
            dump_node(s, res[1], 'CB:', None)
        res = attempt('create_trees GROW kw ' + tag, lambda: s._create_trees(algorithm='GROW'))
        emit('rng', rng_mark())
        for alg in ('FULL', 'grow', None, 0):
            attempt('create_trees alg=%r %s' % (alg, tag), lambda: s._create_trees(alg))
            emit('rng', rng_mark())
        dump_space(s, tag + '/after')

# ---- Error paths --------------------------------------------------------------------
np.random.seed(99)
BAD = [
    dict(n_trees=0.0), dict(n_trees=0), dict(n_trees=-1), dict(n_trees='1'), dict(n_trees=None),
    dict(n_terminals=0.0), dict(n_terminals=0), dict(n_terminals=-3), dict(n_terminals=[1]),
    dict(min_depth=0.0), dict(min_depth=0), dict(min_depth=-1), dict(min_depth='a'),
    dict(max_depth=0.0), dict(max_depth=0), dict(min_depth=3, max_depth=2), dict(max_depth=None),
    dict(functions=None), dict(functions=('SUM',)), dict(functions='SUM'), dict(functions={}),
    dict(functions=['NOPE']), dict(functions=['SUM', 'NOPE'], max_depth=6, n_trees=8),
    dict(functions=[1]), dict(functions=[None], max_depth=5, n_trees=5),
    dict(n_variables=2), dict(n_variables=2, lower_bound=[0, 0]), dict(n_variables=0), dict(n_variables=1.0),
    dict(lower_bound=0, upper_bound=1), dict(lower_bound=['a'], upper_bound=['b']),
    dict(lower_bound=[float('nan')], upper_bound=[1]), dict(lower_bound=[0], upper_bound=[float('inf')]),
    dict(n_iterations=0), dict(n_iterations='x'),
]
for k, cfg in enumerate(BAD):
    np.random.seed(500 + k)
    s = attempt('bad%d %r' % (k, sorted(cfg.items(), key=str)), lambda: TreeSpace(**cfg))
    emit('rng', rng_mark())
    if s is not None:
        dump_space(s, 'bad%d' % k)

# ---- Setters on a live object ---------------------------------------------------------
np.random.seed(5)
s = TreeSpace(n_trees=2, n_terminals=2, n_variables=1, min_depth=2, max_depth=4, functions=['SUM'])
SETS = [
    ('n_trees', [3, 0, -1, 1.0, '2', None, True, False]),
    ('n_terminals', [3, 0, -1, 1.0, '2', None, True, False]),
    ('min_depth', [1, 0, -1, 1.0, '2', None, True, False, 9]),
    ('max_depth', [9, 8, 0, 1.0, '2', None, True, False, 10 ** 30]),
    ('functions', [['MUL'], [], (), 'SUM', None, {'SUM': 2}, ['X', 1]]),
    ('terminals', [[], [1, 2], (), None, 'ab', list(s.terminals)]),
    ('trees', [[], [1], (), None, list(s.trees)]),
    ('best_tree', [Node('x', 'TERMINAL', np.zeros(1)), Node('SUM', 'FUNCTION'), None, 1, 'n', s.trees[0]]),
]
for attr, values in SETS:
    for v in values:
        def do(attr=attr, v=v):
            setattr(s, attr, v)
        attempt('set %s %r' % (attr, v if not isinstance(v, (list, Node)) else type(v).__name__), do)
        got = getattr(s, attr)
        emit('get', attr, type(got).__name__, got is v, repr(got) if not isinstance(got, list) else len(got))
        emit('private', type(getattr(s, '_' + attr)).__name__, getattr(s, '_' + attr) is got)

# Behaviour after changing the configuration through the setters
np.random.seed(11)
s = TreeSpace(n_trees=2, n_terminals=3, n_variables=2, min_depth=1, max_depth=3, functions=['SUM', 'COS'],
              lower_bound=[-1, -2], upper_bound=[1, 2])
s.functions = ['MUL', 'SQRT', 'SUB']
s.max_depth = 6
s.n_trees = 4
res = attempt('create after setters', s._create_trees)
emit('rng', rng_mark())
if res is not None:
    for i, t in enumerate(res[0]):
        dump_node(s, t, 'S%d:' % i, None)
    dump_node(s, res[1], 'SB:', None)
s.n_terminals = 5  # more ids than terminals -> IndexError possible
for i in range(6):
    n = attempt('grow with too many ids %d' % i, lambda: s.grow(1, 4))
    emit('rng', rng_mark())
    if n is not None:
        dump_node(s, n, 'X%d:' % i, None)
s.n_terminals = 3
s.functions = ['SUM', 'BOGUS']
for i in range(6):
    n = attempt('grow with bogus function %d' % i, lambda: s.grow(1, 5))
    emit('rng', rng_mark())
    if n is not None:
        dump_node(s, n, 'Y%d:' % i, None)
s.functions = ['SUM']
s.terminals = []
n = attempt('grow with no terminal objects', lambda: s.grow(2, 2))
emit('rng', rng_mark())

digest = hashlib.sha256('\n'.join(OUT).encode('utf-8')).hexdigest()
if '-v' in sys.argv:
    print('\n'.join(OUT))
print('lines', len(OUT))
print(digest)
