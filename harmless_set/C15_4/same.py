import hashlib
import warnings

import numpy as np

warnings.simplefilter('ignore')

from opytimizer.core.function import Function
from opytimizer.spaces.search import SearchSpace

_H = hashlib.sha256()
_N = [0]


def feed(x):
    """Feeds any (nested) value into the running digest, floats as float.hex()."""
    _N[0] += 1
    if isinstance(x, np.ndarray):
        _H.update(('A%s%s[' % (x.dtype, x.shape)).encode())
        for v in x.ravel().tolist():
            feed(v)
        _H.update(b']')
    elif isinstance(x, (bool, np.bool_)):
        _H.update(('b%d;' % bool(x)).encode())
    elif isinstance(x, (float, np.floating)):
        _H.update(('f' + float(x).hex() + ';').encode())
    elif isinstance(x, (int, np.integer)):
        _H.update(('i%d;' % int(x)).encode())
    elif isinstance(x, str):
        _H.update(('s' + x + ';').encode())
    elif x is None:
        _H.update(b'N;')
    elif isinstance(x, (list, tuple)):
        _H.update(b'(')
        for v in x:
            feed(v)
        _H.update(b')')
    elif isinstance(x, dict):
        _H.update(b'{')
        for k in x:
            feed(k)
            feed(x[k])
        _H.update(b'}')
    else:
        _H.update(('o' + type(x).__name__ + ';').encode())


def rng_state():
    s = np.random.get_state()
    return [s[0], hashlib.sha256(s[1].tobytes()).hexdigest(), int(s[2]), int(s[3]), float(s[4])]


def sphere(x):
    return np.sum(x ** 2)


def shifted(x):
    return np.sum((x - 0.3) ** 2) - 1.0


def rastrigin(x):
    return float(np.sum(x ** 2 - 10 * np.cos(2 * np.pi * x) + 10))


def constant(x):
    return 1.0


def negsum(x):
    return -np.sum(x)


def nan_some(x):
    s = np.sum(x)
    return float('nan') if s > 0.5 else float(s)


def make_space(seed, n_agents, n_variables, n_iterations, lb, ub):
    np.random.seed(seed)
    return SearchSpace(n_agents=n_agents, n_variables=n_variables, n_iterations=n_iterations,
                       lower_bound=lb, upper_bound=ub)


def snapshot_space(space):
    feed([[a.position, a.fit] for a in space.agents])
    feed([space.best_agent.position, space.best_agent.fit])


def traced(fn, trace):
    def objective(x):
        trace.append(('eval', np.array(x, copy=True)))
        return fn(x)
    return objective


def feed_history(hist):
    feed(sorted(hist.__dict__.keys()))
    for k in sorted(hist.__dict__.keys()):
        feed(hist.__dict__[k])

from opytimizer.optimizers.fa import FA


def run_case(seed, hyper, fn, n_agents, n_variables, n_iterations, lb, ub, store_best_only=False, hook_kind=None):
    feed(['case', seed, sorted(hyper.items()), fn.__name__, n_agents, n_variables, n_iterations, store_best_only, str(hook_kind)])
    trace = []
    opt = None
    try:
        space = make_space(seed, n_agents, n_variables, n_iterations, lb, ub)
        opt = FA(hyperparams=dict(hyper))
        func = Function(pointer=traced(fn, trace))
        ids = [id(a) for a in space.agents]
        hook = None
        if hook_kind == 'record':
            def hook(o, s, f):
                trace.append(('hook', o.alpha, o.beta, o.gamma, [a.position.copy() for a in s.agents],
                              [a.fit for a in s.agents], rng_state()))
        elif hook_kind == 'mutate':
            def hook(o, s, f):
                trace.append(('hook', len(trace)))
                s.agents[-1].position = s.agents[-1].position * 0.5
                o.alpha = o.alpha + 0.125
                o.beta = o.beta * 0.5
                o.gamma = o.gamma + 1
                np.random.uniform()
        hist = opt.run(space, func, store_best_only=store_best_only, pre_evaluation_hook=hook)
        feed_history(hist)
        snapshot_space(space)
        feed([id(a) for a in space.agents] == ids)
    except Exception as ex:  # noqa
        feed(['EXC', type(ex).__name__, str(ex)])
    if opt is not None:
        feed([opt.alpha, opt.beta, opt.gamma])
    feed(trace)
    feed(rng_state())


def update_case(seed, hyper, fn, kind, n_iterations=7):
    feed(['update', seed, sorted(hyper.items()), fn.__name__, kind, n_iterations])
    space = make_space(seed, 5, 3, 5, [-1, -2, -3], [1, 2, 3])
    opt = None
    try:
        opt = FA(hyperparams=dict(hyper))
        func = Function(pointer=fn)
        for a in space.agents:
            a.fit = func.pointer(a.position)
        if kind == 'equal':
            for a in space.agents:
                a.fit = 1.0
        elif kind == 'nanfit':
            space.agents[0].fit = float('nan')
            space.agents[2].fit = float('inf')
            space.agents[3].fit = float('-inf')
        before_pos = [a.position for a in space.agents]
        if kind == 'empty':
            arg = []
        elif kind == 'single':
            arg = [space.agents[0]]
        elif kind == 'repeat':
            arg = [space.agents[1], space.agents[1], space.agents[2]]
        elif kind == 'tuple':
            arg = tuple(space.agents)
        elif kind == 'bad':
            arg = [space.agents[0], 'x']
        elif kind == 'none':
            arg = None
        else:
            arg = space.agents
        for _ in range(3):
            ret = opt._update(arg, space.best_agent, func, n_iterations)
            feed(ret)
            feed([opt.alpha, opt.beta, opt.gamma])
            snapshot_space(space)
        feed([a.position is b for a, b in zip(space.agents, before_pos)])
    except Exception as ex:  # noqa
        feed(['EXC', type(ex).__name__, str(ex)])
    if opt is not None:
        feed([opt.alpha, opt.beta, opt.gamma])
    snapshot_space(space)
    feed(rng_state())


for seed in (0, 1, 2, 4242):
    run_case(seed, {}, sphere, 5, 3, 6, [-5, -5, -5], [5, 5, 5])
    run_case(seed, {'alpha': 1, 'beta': 1, 'gamma': 0}, rastrigin, 3, 2, 5, [-1, 0], [1, 0.5], store_best_only=True)
    run_case(seed, {'alpha': 0, 'beta': 0.2, 'gamma': 2.5}, shifted, 1, 1, 4, [0], [1], hook_kind='record')
    run_case(seed, {'alpha': 0.9}, negsum, 4, 2, 5, [-1, -1], [1, 1], hook_kind='mutate')
    run_case(seed, {}, nan_some, 6, 2, 4, [-1, -1], [1, 1], hook_kind='record')
    run_case(seed, {'beta': 0, 'gamma': 1e308}, sphere, 4, 2, 3, [-1, -1], [1, 1])
    run_case(seed, {'alpha': 1e308, 'beta': 1e308}, sphere, 4, 2, 3, [-1e300, -1e300], [1e300, 1e300])
run_case(7, {}, constant, 3, 2, 2, [0, 0], [1, 1])
run_case(7, {'alpha': -1}, sphere, 3, 2, 5, [-1, -1], [1, 1])
run_case(7, {'gamma': 'x'}, sphere, 3, 2, 5, [-1, -1], [1, 1])
for kind in ('plain', 'equal', 'nanfit', 'empty', 'single', 'repeat', 'tuple', 'bad', 'none'):
    for seed in (3, 4):
        update_case(seed, {'alpha': 0.5, 'beta': 0.2, 'gamma': 1.0}, sphere, kind)
        update_case(seed, {'alpha': 2, 'beta': 1, 'gamma': 0}, negsum, kind, n_iterations=1)
update_case(5, {}, sphere, 'plain', n_iterations=0)
update_case(5, {}, sphere, 'plain', n_iterations=-2)
update_case(5, {}, sphere, 'plain', n_iterations=2.5)
update_case(5, {}, sphere, 'plain', n_iterations='x')

print('items', _N[0])
print(_H.hexdigest())
