"""Exercises IHS.run (the PAR / bandwidth schedule that drives the inherited HS._update) on seeded inputs; last line is a digest."""
import hashlib
import logging
import warnings

import numpy as np

logging.disable(logging.CRITICAL)
warnings.simplefilter('ignore')

from opytimizer.core.function import Function
from opytimizer.optimizers.ihs import IHS
from opytimizer.spaces.search import SearchSpace

H = hashlib.sha256()


def feed(x):
    if isinstance(x, np.ndarray):
        H.update(('A' + str(x.shape) + str(x.dtype)).encode())
        for v in x.ravel().tolist():
            feed(v)
    elif isinstance(x, (float, np.floating)):
        H.update(('F' + float(x).hex()).encode())
    elif isinstance(x, (list, tuple)):
        H.update(('L%d' % len(x)).encode())
        for v in x:
            feed(v)
    else:
        H.update(('O' + repr(x)).encode())


def feed_rng():
    st = np.random.get_state()
    H.update(st[1].tobytes())
    H.update(str(st[2:]).encode())


def sphere(x):
    return np.sum(x ** 2)


def shifted(x):
    return float(np.sum(np.abs(x - 0.3)) + np.prod(np.cos(x)))


def nan_fn(x):
    return float('nan')


def boom(x):
    raise ZeroDivisionError('boom')


def snapshot(space):
    for a in space.agents:
        feed(a.position)
        feed(a.fit)
    feed(space.best_agent.position)
    feed(space.best_agent.fit)


def make(seed, n_agents, n_variables, lb, ub):
    np.random.seed(seed)
    return SearchSpace(n_agents=n_agents, n_variables=n_variables, n_iterations=5,
                       lower_bound=lb, upper_bound=ub)


def hook(opt, space, function):
    # observes the scheduled parameters (value and type) before every evaluation
    feed(opt.PAR)
    feed(type(opt.PAR).__name__)
    feed(opt.bw)
    feed(type(opt.bw).__name__)
    feed_rng()


def run_case(seed, hp, n_agents, n_vars, n_iter, fn, with_hook):
    np.random.seed(seed)
    space = SearchSpace(n_agents=n_agents, n_variables=n_vars, n_iterations=n_iter,
                        lower_bound=[-5.0] * n_vars, upper_bound=[5.0] * n_vars)
    opt = IHS(hyperparams=dict(hp))
    feed(opt.PAR)
    feed(opt.bw)
    try:
        hist = opt.run(space, Function(pointer=fn), pre_evaluation_hook=hook if with_hook else None)
        for it in hist.best_agent:
            feed(it[0])
            feed(it[1])
        feed('ok')
    except Exception as ex:  # noqa
        feed(type(ex).__name__)
    # parameters left on the optimizer afterwards (also after an exception)
    feed(opt.PAR)
    feed(type(opt.PAR).__name__)
    feed(opt.bw)
    feed(type(opt.bw).__name__)
    feed([opt.PAR_min, opt.PAR_max, opt.bw_min, opt.bw_max, opt.HMCR])
    snapshot(space)
    feed_rng()


hps = [
    {},
    {'HMCR': 0.9, 'PAR_min': 0.1, 'PAR_max': 0.9, 'bw_min': 0.5, 'bw_max': 4.0},
    {'HMCR': 1, 'PAR_min': 0.5, 'PAR_max': 0.5, 'bw_min': 2.0, 'bw_max': 2.0},
    {'HMCR': 0.0, 'PAR_min': 0, 'PAR_max': 1, 'bw_min': 1, 'bw_max': 10},
    {'HMCR': 1.0, 'PAR_min': 1, 'PAR_max': 1, 'bw_min': 1e-300, 'bw_max': 1e300},
    # bw_min = 0.0: log(0) = -inf, first iteration gives nan bandwidth
    {'HMCR': 1.0, 'PAR_min': 0.0, 'PAR_max': 1.0, 'bw_min': 0.0, 'bw_max': 3.0},
    # float zeros: 0.0 / 0.0 raises ZeroDivisionError after PAR has been rescheduled
    {'HMCR': 0.7, 'PAR_min': 0.2, 'PAR_max': 0.4, 'bw_min': 0.0, 'bw_max': 0.0},
    # integer zeros: same, through integer division
    {'HMCR': 0.7, 'PAR_min': 0.3, 'PAR_max': 0.6, 'bw_min': 0, 'bw_max': 0},
    # PAR / bw given explicitly are overwritten by the schedule
    {'PAR': 0.05, 'bw': 123.0, 'PAR_min': 0.25, 'PAR_max': 0.75, 'bw_min': 1, 'bw_max': 2},
]
for seed in (0, 1, 7):
    for hp in hps:
        for n_agents, n_vars, n_iter in ((1, 1, 1), (3, 2, 4), (6, 3, 9)):
            for fn in (sphere, shifted):
                run_case(seed, hp, n_agents, n_vars, n_iter, fn, with_hook=(seed != 1))

# objective raising in the middle of a run: parameters keep the value of the failing iteration
calls = [0]


def fragile(x):
    calls[0] += 1
    if calls[0] > 12:
        raise ZeroDivisionError('boom')
    return np.sum(x ** 2)


run_case(5, {'PAR_min': 0.1, 'PAR_max': 0.8, 'bw_min': 1, 'bw_max': 7}, 4, 2, 10, fragile, True)

# broken spaces
for bad in (None, object()):
    np.random.seed(23)
    opt = IHS()
    try:
        opt.run(bad, Function(pointer=sphere))
        feed('ok')
    except Exception as ex:  # noqa
        feed(type(ex).__name__)
    feed(opt.PAR)
    feed(opt.bw)
    feed_rng()

print(H.hexdigest())
