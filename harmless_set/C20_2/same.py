"""Digest of seeded CS runs (per-agent histories, best agent, trace of objective calls, RNG state)."""
import hashlib
import logging

import numpy as np

logging.disable(logging.CRITICAL)

from opytimizer.core.function import Function
from opytimizer.optimizers.cs import CS
from opytimizer.spaces.search import SearchSpace

H = hashlib.sha256()


def feed(x):
    """Feeds any nested structure of numbers into the digest, floats as float.hex()."""
    if isinstance(x, (list, tuple)):
        H.update(b'[')
        for v in x:
            feed(v)
        H.update(b']')
    elif isinstance(x, np.ndarray):
        H.update(str(x.shape).encode())
        feed(x.tolist())
    elif isinstance(x, (float, np.floating)):
        H.update(float(x).hex().encode() + b';')
    else:
        H.update(repr(x).encode() + b';')


def rng_state():
    s = np.random.get_state()
    return hashlib.sha256(s[1].tobytes()).hexdigest() + ':%d' % s[2]


def sphere(x):
    return np.sum(x ** 2)


def plateau(x):
    # many ties: acceptance must be strict
    return float(np.sum(np.floor(np.abs(x))))


def constant(x):
    return 1.0


def shifted(x):
    return float(np.sum((x - 0.3) ** 2) - 5.0)


def with_nan(x):
    v = float(np.sum(x))
    return float('nan') if v > 3.0 else v * v


def rastrigin(x):
    return float(np.sum(x ** 2 - 10 * np.cos(2 * np.pi * x) + 10))


def make_traced(obj, trace):
    # objectives wrapped in Function must take exactly one parameter
    def traced(x):
        trace.append(np.array(x, copy=True))
        return obj(x)
    return traced


OBJECTIVES = [sphere, plateau, constant, shifted, with_nan, rastrigin]

CONFIGS = [
    # n_agents, n_variables, n_iterations, lb, ub, hyperparams
    (2, 1, 5, [0], [1], {}),
    (2, 2, 8, [1, 1], [10, 10], {}),
    (5, 3, 12, [-5, -5, -5], [5, 5, 5], {'p': 0.0}),
    (5, 3, 12, [-5, -5, -5], [5, 5, 5], {'p': 1.0}),
    (7, 2, 15, [-1, 0], [1, 0], {'p': 0.5, 'alpha': 0.7, 'beta': 1.2}),
    (10, 4, 10, [-10, -1, 0, 2], [10, 1, 0.5, 2], {'p': 0.8, 'alpha': 2.0}),
]

for seed in (0, 1, 7, 12345):
    for oi, obj in enumerate(OBJECTIVES):
        for ci, (na, nv, ni, lb, ub, hp) in enumerate(CONFIGS):
            np.random.seed(seed * 1000 + oi * 10 + ci)
            trace = []
            traced = make_traced(obj, trace)
            space = SearchSpace(n_agents=na, n_variables=nv, n_iterations=ni,
                                lower_bound=lb, upper_bound=ub)
            opt = CS(hyperparams=dict(hp))
            hist = opt.run(space, Function(pointer=traced))
            feed(hist.agents)
            feed(hist.best_agent)
            feed(trace)
            feed([(a.position, a.fit) for a in space.agents])
            H.update(rng_state().encode())

# _evaluate_nests alone: candidates out of bounds, ties, NaN, lists of different length, empty lists
import copy

for seed in (3, 4, 5):
    for obj in (plateau, with_nan, sphere):
        np.random.seed(seed)
        space = SearchSpace(n_agents=6, n_variables=2, n_iterations=1,
                            lower_bound=[-3, -3], upper_bound=[3, 3])
        opt = CS()
        trace = []
        fn = Function(pointer=make_traced(obj, trace))
        opt._evaluate(space, fn)
        for cut_a, cut_n in ((6, 6), (6, 4), (3, 6), (0, 6), (6, 0), (0, 0), (1, 1)):
            new_agents = copy.deepcopy(space.agents)
            for a in new_agents:
                a.position = a.position + np.random.uniform(-4, 4, a.position.shape)
            new_agents = new_agents[:cut_n]
            agents = space.agents[:cut_a]
            out = opt._evaluate_nests(agents, new_agents, fn)
            feed(repr(out))
            feed([(a.position, a.fit) for a in space.agents])
            feed([(a.position, a.fit) for a in new_agents])
        feed(trace)
        H.update(rng_state().encode())

print(H.hexdigest())
