"""Exercises opytimizer.core.node (_evaluate, _properties, find_node, pre_order,
post_order) on seeded inputs and edge cases; prints a sha256 digest as the last line.
"""

import hashlib
import logging
import warnings

import numpy as np

logging.disable(logging.CRITICAL)
warnings.filterwarnings('ignore')
np.seterr(all='ignore')

import opytimizer.core.node as nd
from opytimizer.core.function import Function
from opytimizer.core.node import Node
from opytimizer.optimizers.gp import GP
from opytimizer.spaces.tree import TreeSpace

H = hashlib.sha256()
N_RECORDS = 0


def put(*items):
    """Feeds a record into the digest."""

    global N_RECORDS
    N_RECORDS += 1
    H.update(('|'.join(str(i) for i in items) + '\n').encode())


def enc(x):
    """Encodes a result (arrays bit-exactly through float.hex)."""

    if x is None:
        return 'None'
    if isinstance(x, np.ndarray):
        flat = np.asarray(x, dtype=float).ravel()
        return f'arr{x.shape}{x.dtype}:' + ','.join(float(v).hex() for v in flat)
    if isinstance(x, (float, np.floating)):
        return 'f:' + float(x).hex()
    return f'{type(x).__name__}:{x!r}'


def attempt(label, fn):
    """Runs fn and records either its encoded result or the exception type."""

    try:
        out = fn()
    except BaseException as ex:  # noqa
        put(label, 'EXC', type(ex).__name__)
        return None
    put(label, 'OK', out if isinstance(out, str) else enc(out))
    return out


FUNCS1 = ['EXP', 'SQRT', 'LOG', 'ABS', 'SIN', 'COS']
FUNCS2 = ['SUM', 'SUB', 'MUL', 'DIV']


def random_tree(rng, depth, shape, lopsided=False, p_term=0.3):
    """Builds a random tree, linking parents and flags as TreeSpace.grow does.

    If `lopsided`, unary functions may hang their child on the right, and binary
    ones may miss a child (edge cases for the traversals / properties).
    """

    if depth == 0 or rng.random() < p_term:
        return Node(name=int(rng.integers(0, 5)), type='TERMINAL',
                    value=rng.uniform(-3, 3, size=shape))

    if rng.random() < 0.4:
        f = Node(name=FUNCS1[int(rng.integers(len(FUNCS1)))], type='FUNCTION')
        child = random_tree(rng, depth - 1, shape, lopsided, p_term)
        child.parent = f
        if lopsided and rng.random() < 0.5:
            f.right = child
            child.flag = False
        else:
            f.left = child
        return f

    f = Node(name=FUNCS2[int(rng.integers(len(FUNCS2)))], type='FUNCTION')
    left = random_tree(rng, depth - 1, shape, lopsided, p_term)
    right = random_tree(rng, depth - 1, shape, lopsided, p_term)
    drop = int(rng.integers(0, 6)) if lopsided else 0
    if drop != 1:
        f.left = left
        left.parent = f
    if drop != 2:
        f.right = right
        right.parent = f
        right.flag = False
    return f


def index_map(tree):
    """Maps id(node) -> its index in a reference recursive pre-order walk."""

    ids = {}

    def walk(n):
        if n is None:
            return
        ids[id(n)] = len(ids)
        walk(n.left)
        walk(n.right)

    walk(tree)
    return ids


def ref_post(n, out):
    if n is None:
        return out
    ref_post(n.left, out)
    ref_post(n.right, out)
    out.append(n)
    return out


def describe(tree, label):
    """Records everything observable about a tree through the target code."""

    ids = index_map(tree)

    def ident(n):
        if n is None:
            return 'None'
        return str(ids.get(id(n), 'foreign'))

    # Traversals: order and identity of the returned nodes
    pre = attempt(label + ':pre', lambda: ','.join(
        f'{ident(n)}={n!r}' for n in tree.pre_order))
    attempt(label + ':post', lambda: ','.join(
        f'{ident(n)}={n!r}' for n in tree.post_order))

    # The traversals return fresh lists of the very same node objects
    p1, p2 = tree.pre_order, tree.pre_order
    put(label + ':pre-fresh', p1 is not p2, all(a is b for a, b in zip(p1, p2)),
        p1[0] is tree, len(p1))
    q = tree.post_order
    put(label + ':post-ident', all(a is b for a, b in zip(q, ref_post(tree, []))),
        q[-1] is tree, len(q))

    # Properties
    attempt(label + ':props', lambda: repr(sorted(nd._properties(tree).items())))
    attempt(label + ':props-type', lambda: ','.join(
        type(v).__name__ for v in nd._properties(tree).values()))
    attempt(label + ':props-keys', lambda: ','.join(nd._properties(tree).keys()))
    attempt(label + ':props-attr', lambda: repr(
        (tree.min_depth, tree.max_depth, tree.n_leaves, tree.n_nodes)))

    # Evaluation
    attempt(label + ':eval', lambda: nd._evaluate(tree))
    attempt(label + ':position', lambda: tree.position)

    # find_node at every position, and at a few out-of-range / odd ones
    n = len(ids)
    positions = list(range(-n - 2, n + 3)) + [1.0, 0.5, True, None, 'a', np.int64(1),
                                              np.float64(2.0), 10 ** 6]
    for pos in positions:
        def call(pos=pos):
            out = tree.find_node(pos)
            return f'{type(out).__name__}/{len(out)}/{ident(out[0])}/{out[1]!r}'
        attempt(f'{label}:find[{pos!r}]', call)

    return pre


def main():
    # 1. Seeded random trees: well-formed, lopsided, various shapes
    for seed in range(24):
        rng = np.random.default_rng(1000 + seed)
        shape = [(1, 1), (3, 1), (2, 2), (4,)][seed % 4]
        tree = random_tree(rng, depth=1 + seed % 6, shape=shape,
                           lopsided=(seed % 3 == 2), p_term=0.15 if seed % 2 else 0.3)
        describe(tree, f'rand{seed}')

        # Every sub-tree too (nodes with a parent above them)
        for k, sub in enumerate(tree.pre_order[1:6]):
            describe(sub, f'rand{seed}.sub{k}')

    # 2. Hand-made edge cases
    one = np.array([[1.5], [-2.0]])
    two = np.array([[0.25], [4.0]])

    # 2a. single terminal, single function with no children
    describe(Node(name=0, type='TERMINAL', value=one), 'single-terminal')
    for name in FUNCS1 + FUNCS2 + ['FOO', 7]:
        describe(Node(name=name, type='FUNCTION'), f'bare-{name}')

    # 2b. every function over terminals (incl. zero / negative / inf / nan values)
    specials = [one, two, np.zeros((2, 1)), np.array([[np.inf], [-np.inf]]),
                np.array([[np.nan], [1e308]]), np.array([[-1e-320], [710.0]])]
    for i, a in enumerate(specials):
        for j, b in enumerate(specials):
            for name in FUNCS1 + FUNCS2 + ['FOO']:
                f = Node(name=name, type='FUNCTION')
                l = Node(name=1, type='TERMINAL', value=a)
                r = Node(name=2, type='TERMINAL', value=b)
                f.left, f.right = l, r
                l.parent = r.parent = f
                r.flag = False
                attempt(f'op-{name}-{i}-{j}', lambda: nd._evaluate(f))
    f = Node(name='SUM', type='FUNCTION')
    l = Node(name=1, type='TERMINAL', value=one)
    r = Node(name=2, type='TERMINAL', value=two)
    f.left, f.right = l, r
    l.parent = r.parent = f
    r.flag = False
    describe(f, 'sum-tree')

    # A terminal's position is the very array it holds (no copy)
    put('terminal-alias', l.position is one, nd._evaluate(l) is one)

    # 2c. a terminal that (abnormally) has children: they are still evaluated/traversed
    t = Node(name=3, type='TERMINAL', value=one)
    bad = Node(name='SUM', type='FUNCTION')  # evaluating it raises TypeError
    t.left = bad
    bad.parent = t
    describe(t, 'terminal-with-bad-child')
    t2 = Node(name=3, type='TERMINAL', value=one)
    t2.right = Node(name=4, type='TERMINAL', value=two)
    t2.right.parent = t2
    t2.right.flag = False
    describe(t2, 'terminal-with-right-child')

    # 2d. only-right-child chains, deep left chain, deep right chain
    for side in ('left', 'right'):
        root = cur = Node(name='ABS', type='FUNCTION')
        for _ in range(40):
            nxt = Node(name='SIN', type='FUNCTION')
            setattr(cur, side, nxt)
            nxt.parent = cur
            nxt.flag = side == 'left'
            cur = nxt
        leaf = Node(name=0, type='TERMINAL', value=two)
        setattr(cur, side, leaf)
        leaf.parent = cur
        leaf.flag = side == 'left'
        describe(root, f'chain-{side}')

    # 2e. missing parent links (find_node raises AttributeError on function nodes)
    f = Node(name='MUL', type='FUNCTION')
    g = Node(name='COS', type='FUNCTION')
    f.left = g
    f.right = Node(name=0, type='TERMINAL', value=one)
    g.left = Node(name=1, type='TERMINAL', value=two)
    describe(f, 'no-parents')

    # 2f. shared child (a DAG) and the same node as both children
    s = Node(name=0, type='TERMINAL', value=one)
    f = Node(name='SUB', type='FUNCTION')
    f.left = f.right = s
    s.parent = f
    describe(f, 'shared-child')

    # 2g. _evaluate / _properties on non-nodes
    attempt('eval-None', lambda: nd._evaluate(None))
    attempt('eval-0', lambda: nd._evaluate(0))
    attempt('eval-[]', lambda: nd._evaluate([]))
    attempt('eval-1', lambda: nd._evaluate(1))
    attempt('props-None', lambda: repr(nd._properties(None)))
    attempt('props-1', lambda: repr(nd._properties(1)))

    # 2h. integer-valued terminals
    f = Node(name='DIV', type='FUNCTION')
    f.left = Node(name=0, type='TERMINAL', value=np.array([[7], [0]]))
    f.right = Node(name=1, type='TERMINAL', value=np.array([[0], [3]]))
    f.left.parent = f.right.parent = f
    f.right.flag = False
    describe(f, 'int-div')

    # 3. Seeded TreeSpace + GP runs (random stream and full pipeline)
    def sphere(x):
        return np.sum((x - 1.234) ** 2)

    for seed in (0, 1, 2, 3):
        np.random.seed(seed)
        space = TreeSpace(n_trees=8, n_terminals=3, n_variables=2 + seed % 2,
                          n_iterations=6, min_depth=1 + seed % 2, max_depth=4 + seed % 2,
                          functions=['SUM', 'SUB', 'MUL', 'DIV', 'EXP', 'SQRT', 'LOG',
                                     'ABS', 'SIN', 'COS'][: 4 + 2 * seed],
                          lower_bound=[-5] * (2 + seed % 2), upper_bound=[5] * (2 + seed % 2))
        for k, tree in enumerate(space.trees):
            describe(tree, f'space{seed}.tree{k}')
        opt = GP(hyperparams={'p_reproduction': 0.25, 'p_mutation': 0.3,
                              'p_crossover': 0.45, 'prunning_ratio': 0.0})
        history = opt.run(space, Function(sphere))
        for k, tree in enumerate(space.trees):
            describe(tree, f'space{seed}.after{k}')
        describe(space.best_tree, f'space{seed}.best')
        for it, (pos, fit) in enumerate(history.best_agent):
            put(f'gp{seed}.hist{it}', enc(np.asarray(pos)), enc(float(fit)))
        put(f'gp{seed}.rng', enc(np.random.uniform(size=3)))

    print('records:', N_RECORDS)
    print(H.hexdigest())


if __name__ == '__main__':
    main()
