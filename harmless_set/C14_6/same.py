"""Exercises the Space setters (sizes, agents, best_agent, lb, ub) and prints a digest."""
import hashlib
import logging

import numpy as np

import warnings

from opytimizer.core import agent, function, space
from opytimizer.optimizers import gp, pso
from opytimizer.spaces import search, tree

OUT = []


class Capture(logging.Handler):
    """Records what the library's error classes write to the log."""

    def emit(self, record):
        OUT.append(f'log|{record.name}|{record.levelname}|{record.getMessage()}')


# Silence the console/file handlers; keep (and digest) the error log lines
for _name, _lg in list(logging.root.manager.loggerDict.items()):
    if _name.startswith('opytimizer') and isinstance(_lg, logging.Logger):
        _lg.handlers = [Capture() if _name == 'opytimizer.utils.exception' else logging.NullHandler()]


def rec(*items):
    OUT.append('|'.join(str(i) for i in items))


def enc(v):
    """Encodes a value exactly (type + bit pattern for floats)."""
    if isinstance(v, float):
        return f'{type(v).__name__}:{float(v).hex()}'
    if isinstance(v, np.ndarray):
        if v.dtype == object:
            return f'{type(v).__name__}:object:{v.shape}:{v.tolist()!r}'
        return f'{type(v).__name__}:{v.dtype}:{v.shape}:{np.asarray(v).tobytes().hex()}'
    if isinstance(v, (list, tuple)):
        return f'{type(v).__name__}[' + ','.join(enc(x) for x in v) + ']'
    return f'{type(v).__name__}:{v!r}'


class MyFloat(float):
    pass


class MyInt(int):
    pass


class OddInt(int):
    """An integer whose ordering says it is never positive."""

    def __le__(self, other):
        return True


class Weird:
    """Not a number, but comparable."""

    def __lt__(self, other):
        return False

    def __repr__(self):
        return 'Weird()'


PROBES = [
    0, 1, -1, 2, 10 ** 30, -10 ** 30, True, False,
    0.0, -0.0, 0.5, 1.0, -0.5, 1e-320, -1e-320, 1e308, -1e308,
    float('nan'), float('inf'), float('-inf'),
    np.float64(0.3), np.float64(-0.3), np.float64('nan'), np.float32(0.3),
    np.float16(0.3), np.int64(3), np.int32(-3), np.bool_(True),
    MyFloat(0.25), MyFloat(-0.25), MyInt(4), MyInt(-4), MyInt(0), OddInt(5), 3, 7,
    'a', '', b'1', None, [1.0], (1.0,), {}, {1}, 1j, complex(1, 0),
    np.array(0.5), np.array([0.5]), np.array([0.5, -1.0]), Weird(), object, int, float,
]


warnings.simplefilter('ignore')


class MyList(list):
    pass


class MyAgent(agent.Agent):
    pass


class MyArray(np.ndarray):
    pass


def snapshot(sp):
    return [(k, id(v)) for k, v in sorted(sp.__dict__.items())]


def try_set(tag, sp, name, k, v):
    had = '_' + name in sp.__dict__
    before = sp.__dict__.get('_' + name)
    snap = snapshot(sp)
    try:
        setattr(sp, name, v)
        after = getattr(sp, name)
        others = [(a, b) for a, b in snapshot(sp) if a != '_' + name] == \
                 [(a, b) for a, b in snap if a != '_' + name]
        rec(tag, name, k, 'ok', enc(after) if not isinstance(after, (list, agent.Agent)) else type(after).__name__,
            after is v, sp.__dict__['_' + name] is v, others)
    except BaseException as ex:  # pylint: disable=broad-except
        rec(tag, name, k, 'exc', type(ex).__module__, type(ex).__name__,
            [enc(a) if not isinstance(a, str) else a for a in ex.args], str(ex),
            ('_' + name in sp.__dict__) == had, sp.__dict__.get('_' + name) is before, snapshot(sp) == snap)


def probe_setters():
    for name in ['n_agents', 'n_variables', 'n_dimensions', 'n_iterations']:
        sp = space.Space(n_agents=2, n_variables=3, n_dimensions=2, n_iterations=4)
        for k, v in enumerate(PROBES):
            try_set('int', sp, name, k, v)

    a0 = agent.Agent(2, 1)
    list_probes = [[], [a0], [a0, a0], [1, 'x', None], MyList(), MyList([a0]), (), (a0,), None, 0, 'abc',
                   {}, {a0: 1}, np.array([a0], dtype=object), iter([a0]), range(3), list, a0]
    sp = space.Space(n_agents=2, n_variables=3)
    for k, v in enumerate(list_probes):
        try_set('list', sp, 'agents', k, v)

    agent_probes = [a0, agent.Agent(), MyAgent(3, 2), None, 0, 'a', [a0], (a0,), agent.Agent, MyAgent,
                    space.Space(), np.zeros(2), {'position': 1}]
    sp = space.Space(n_agents=2, n_variables=3)
    for k, v in enumerate(agent_probes):
        try_set('agent', sp, 'best_agent', k, v)

    for n_vars in [1, 3]:
        arr_probes = [
            np.zeros(n_vars), np.ones(n_vars), np.arange(n_vars), np.full(n_vars, np.nan),
            np.zeros(n_vars + 1), np.zeros(0), np.zeros((n_vars, 2)), np.zeros((2, n_vars)),
            np.zeros((n_vars, 0)), np.zeros((0, n_vars)), np.array(1.0), np.array(None),
            np.array(['a'] * n_vars), np.array([None] * n_vars, dtype=object),
            np.zeros(n_vars).view(MyArray), np.zeros(n_vars + 2).view(MyArray),
            np.ma.masked_array(np.zeros(n_vars)), np.ma.masked_array(np.zeros(5)),
            np.matrix(np.zeros((n_vars, 1))), np.matrix(np.zeros((1, n_vars))) if n_vars > 1 else np.matrix([[1.0, 2.0]]),
            [0.0] * n_vars, tuple([0.0] * n_vars), None, 0, 0.0, np.float64(0.0), 'abc', {}, np.ndarray, np.zeros,
            np.zeros(n_vars, dtype=np.int64), np.zeros(n_vars, dtype=bool), np.zeros(n_vars)[::-1],
        ]
        for name in ['lb', 'ub']:
            sp = space.Space(n_agents=2, n_variables=n_vars)
            for k, v in enumerate(arr_probes):
                try_set(f'arr{n_vars}', sp, name, k, v)

    # Narrowing through the setters: the size check follows the current n_variables
    sp = space.Space(n_agents=2, n_variables=2)
    for k, (name, v) in enumerate([('lb', np.zeros(3)), ('n_variables', 3), ('lb', np.zeros(3)), ('ub', np.zeros(2)),
                                   ('n_variables', True), ('ub', np.ones(1)), ('lb', np.zeros(2)),
                                   ('n_variables', MyInt(4)), ('ub', np.ones(4)), ('n_variables', 0),
                                   ('ub', np.ones(4)), ('ub', np.ones(0))]):
        try_set('seq', sp, name, k, v)
        rec('seq-state', k, enc(sp.n_variables), enc(sp.lb), enc(sp.ub))

    # Setters used on an object that has nothing yet
    raw = space.Space.__new__(space.Space)
    for k, (name, v) in enumerate([('lb', np.zeros(1)), ('ub', np.zeros(1)), ('lb', [0]), ('ub', None),
                                   ('agents', []), ('agents', ()), ('best_agent', a0), ('best_agent', 1),
                                   ('n_variables', 1), ('lb', np.zeros(1)), ('ub', np.zeros(2)), ('built', 'anything')]):
        try_set('raw', raw, name, k, v)

    # Through the property objects, positionally
    sp = space.Space(n_agents=2, n_variables=2)
    for name, v in [('n_agents', 5), ('n_agents', 0), ('agents', [1]), ('agents', 1), ('best_agent', a0),
                    ('best_agent', None), ('lb', np.ones(2)), ('lb', np.ones(3)), ('ub', 'x')]:
        try:
            rec('fset', name, getattr(space.Space, name).fset(sp, v), sp.__dict__['_' + name] is v)
        except BaseException as ex:  # pylint: disable=broad-except
            rec('fset', name, 'exc', type(ex).__name__, str(ex), sp.__dict__['_' + name] is v)


def probe_constructor():
    cases = [
        {}, dict(n_agents=3, n_variables=2, n_dimensions=2, n_iterations=5),
        dict(n_agents=0), dict(n_variables=0), dict(n_dimensions=0), dict(n_iterations=0),
        dict(n_agents='a'), dict(n_variables=1.5), dict(n_dimensions=None), dict(n_iterations=[1]),
        dict(n_agents=-1, n_variables='b'), dict(n_agents='a', n_variables=-1), dict(n_variables=True),
        dict(n_variables=(2, 2)), dict(n_agents=MyInt(2), n_variables=OddInt(2)),
    ]
    for k, kw in enumerate(cases):
        try:
            sp = space.Space(**kw)
            rec('ctor', k, 'ok', enc(sp.n_agents), enc(sp.n_variables), enc(sp.n_dimensions),
                enc(sp.n_iterations), enc(sp.lb), enc(sp.ub), sp.agents, sp.built, list(sp.__dict__))
        except BaseException as ex:  # pylint: disable=broad-except
            rec('ctor', k, 'exc', type(ex).__module__, type(ex).__name__, ex.args, str(ex))

    scases = [
        dict(n_agents=2, n_variables=2, n_iterations=3, lower_bound=[0, 0], upper_bound=[1, 1]),
        dict(n_agents=2, n_variables=2, n_iterations=3, lower_bound=[0], upper_bound=[1, 1]),
        dict(n_agents=2, n_variables=2, n_iterations=3, lower_bound=[0, 0], upper_bound=[1, 1, 1]),
        dict(n_agents=2, n_variables=2, n_iterations=3, lower_bound=0, upper_bound=1),
        dict(n_agents=2, n_variables=2, n_iterations=3, lower_bound=[[0, 0], [0, 0]], upper_bound=[[1], [1]]),
        dict(n_agents=2, n_variables=2, n_iterations=3, lower_bound=(0, 0), upper_bound=np.ones(2)),
        dict(n_agents=2, n_variables=1, n_iterations=3, lower_bound=['a'], upper_bound=['b']),
        dict(n_agents=2, n_variables=2, n_iterations=0, lower_bound=[0, 0], upper_bound=[1, 1]),
        dict(n_agents=2.0, n_variables=2, n_iterations=3, lower_bound=[0, 0], upper_bound=[1, 1]),
    ]
    for k, kw in enumerate(scases):
        np.random.seed(200 + k)
        try:
            sp = search.SearchSpace(**kw)
            rec('search', k, 'ok', enc(sp.lb), enc(sp.ub), [enc(a.position) for a in sp.agents],
                enc(sp.best_agent.position), sp.best_agent is not sp.agents[0], sp.built,
                np.random.random_sample().hex())
        except BaseException as ex:  # pylint: disable=broad-except
            rec('search', k, 'exc', type(ex).__module__, type(ex).__name__, ex.args, str(ex),
                np.random.random_sample().hex())

    tcases = [
        dict(n_trees=3, n_terminals=2, n_variables=2, n_iterations=2, min_depth=1, max_depth=2,
             functions=['SUM', 'MUL'], lower_bound=[0, 0], upper_bound=[1, 1]),
        dict(n_trees=3, n_terminals=2, n_variables=2, n_iterations=2, min_depth=1, max_depth=2,
             functions=['SUM', 'MUL'], lower_bound=[0, 0, 0], upper_bound=[1, 1]),
        dict(n_trees=3, n_terminals=2, n_variables=2, n_iterations=2, min_depth=1, max_depth=2,
             functions=['SUM', 'MUL'], lower_bound=[0, 0], upper_bound=1),
    ]
    for k, kw in enumerate(tcases):
        np.random.seed(300 + k)
        try:
            ts = tree.TreeSpace(**kw)
            rec('tree', k, 'ok', enc(ts.lb), enc(ts.ub), [enc(a.position) for a in ts.agents],
                [enc(t.position) for t in ts.terminals], [str(t) for t in ts.trees],
                np.random.random_sample().hex())
        except BaseException as ex:  # pylint: disable=broad-except
            rec('tree', k, 'exc', type(ex).__module__, type(ex).__name__, ex.args, str(ex),
                np.random.random_sample().hex())


def sphere(x):
    return np.sum(x ** 2)


def seeded_runs():
    for seed, n_agents, n_vars, n_iter in [(0, 5, 2, 8), (1, 3, 1, 5), (2, 4, 4, 6)]:
        np.random.seed(seed)
        sp = search.SearchSpace(n_agents=n_agents, n_variables=n_vars, n_iterations=n_iter,
                                lower_bound=[-5] * n_vars, upper_bound=[5] * n_vars)
        agents_list, lb, ub = sp.agents, sp.lb, sp.ub
        hist = pso.PSO().run(sp, function.Function(pointer=sphere))
        for it, (agents, best) in enumerate(zip(hist.agents, hist.best_agent)):
            rec('run', seed, it,
                [[[float(x).hex() for x in row] for row in a[0]] for a in agents],
                [float(a[1]).hex() for a in agents],
                [[float(x).hex() for x in row] for row in best[0]], float(best[1]).hex())
        rec('run-final', seed, enc(sp.best_agent.position), enc(float(sp.best_agent.fit)),
            sp.agents is agents_list, sp.lb is lb, sp.ub is ub, np.random.random_sample().hex())

    np.random.seed(7)
    ts = tree.TreeSpace(n_trees=4, n_terminals=3, n_variables=2, n_iterations=4,
                        min_depth=1, max_depth=3, functions=['SUM', 'SUB', 'MUL'],
                        lower_bound=[-2, -2], upper_bound=[2, 2])
    hist = gp.GP().run(ts, function.Function(pointer=sphere))
    rec('tree-run', [float(b[1]).hex() for b in hist.best_agent],
        enc(ts.best_agent.position), np.random.random_sample().hex())


probe_setters()
probe_constructor()
seeded_runs()

digest = hashlib.sha256('\n'.join(OUT).encode()).hexdigest()
print(len(OUT), 'records')
print(digest)
